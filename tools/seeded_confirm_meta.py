#!/usr/bin/env python3
"""Confirms filed seeded changes from their /verif/seeded/<id>/ directory and records the
outcome in meta.json ("confirmed"):  tools/seeded_confirm_meta.py C01-e C02-e ...

For each: the patch applies to a pristine scratch copy of /repo/src (outside /repo and
/verif) and compiles; demo.py exits 0 against the pristine copy and 1 against the patched
one; the repository test files closest to the property give the same result with the change
as without it.  Nothing is recorded as confirmed unless all of that holds.
"""
from __future__ import annotations

import json
import os
import shutil
import subprocess
import sys
import tempfile
from pathlib import Path

VERIF = Path(__file__).resolve().parent.parent
TESTS = {
    **{f"C{i:02d}": ["tests/test_taskgroups.py"] for i in range(1, 8)},
    **{f"C{i:02d}": ["tests/test_synchronization.py"] for i in range(8, 12)},
    "C12": ["tests/streams/test_memory.py"], "C13": ["tests/streams/test_memory.py"],
    "C14": ["tests/test_to_thread.py", "tests/test_from_thread.py"],
    "C15": ["tests/test_from_thread.py"],
    "C16": ["tests/streams/test_buffered.py", "tests/streams/test_text.py"],
    "C17": ["tests/streams/test_tls.py"],
    "C18": ["tests/test_sockets.py", "-k", "not ipv6 and not getaddrinfo and not getnameinfo"],
    "C19": ["tests/test_itertools.py", "tests/test_functools.py"],
    "C20": ["tests/test_functools.py"],
}  # fmt: skip


def sh(cmd, **kw):  # noqa: ANN001, ANN201
    return subprocess.run(cmd, capture_output=True, text=True, **kw)


def tests(src: Path, sel: list[str]) -> str:
    p = sh(["/venv/bin/python", "-m", "pytest", "-q", "-p", "no:cacheprovider", "--timeout=600", *sel],
           cwd="/repo", env=dict(os.environ, PYTHONPATH=str(src)))  # fmt: skip
    last = (p.stdout.strip().splitlines() or ["?"])[-1]
    failed = sorted(ln.split(" ")[1] for ln in p.stdout.splitlines() if ln.startswith(("FAILED", "ERROR")))
    return json.dumps({"summary": last.split(" in ")[0], "not_passing": failed})


def confirm(name: str) -> None:
    sdir = VERIF / "seeded" / name
    meta = json.loads((sdir / "meta.json").read_text())
    S = Path(tempfile.mkdtemp(prefix="anyio-confirm-"))
    try:
        for sub in ("clean", "mut"):
            (S / sub).mkdir()
            shutil.copytree("/repo/src", S / sub / "src")

        if sh(["git", "apply", str(sdir / "patch.diff")], cwd=S / "mut").returncode:
            print(name, "!! patch does not apply")
            return

        comp = sh(["/venv/bin/python", "-m", "compileall", "-q", str(S / "mut" / "src")]).returncode == 0
        demo = {}
        for sub in ("clean", "mut"):
            try:
                demo[sub] = sh(["/venv/bin/python", "demo.py"], cwd=sdir, timeout=180,
                               env=dict(os.environ, PYTHONPATH=str(S / sub / "src"))).returncode  # fmt: skip
            except subprocess.TimeoutExpired:
                demo[sub] = "timeout"

        sel = TESTS[meta["property"]]
        same = tests(S / "clean" / "src", sel) == (with_change := tests(S / "mut" / "src", sel))
        ok = comp and demo == {"clean": 0, "mut": 1} and same
        print(name, "ok" if ok else "!! NOT CONFIRMED", comp, demo, same, with_change[:160])
        if ok:
            meta["confirmed"] = {
                "by": "me, on scratch copies of /repo/src outside /repo and /verif (tools/seeded_confirm_meta.py)",
                "patch_applies_and_compiles": True, "demo_exit_on_pristine_tree": 0,
                "demo_exit_with_change": 1, "repository_tests_run_with_change": " ".join(sel),
                "repository_tests_result": "same result as the pristine tree",
                **{k: v for k, v in meta.get("confirmed", {}).items() if k.startswith("whole_")},
            }  # fmt: skip
            (sdir / "meta.json").write_text(json.dumps(meta, indent=1) + "\n")
    finally:
        shutil.rmtree(S, ignore_errors=True)


if __name__ == "__main__":
    from concurrent.futures import ThreadPoolExecutor

    with ThreadPoolExecutor(6) as ex:
        list(ex.map(confirm, sys.argv[1:]))
