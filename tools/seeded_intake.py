#!/usr/bin/env python3
"""Files a confirmed seeded change:
   tools/seeded_intake.py C09[-b] /tmp/seed-C09 "needs ..." [extra props]
(directory name = first argument; the property is its first three characters)"""
import json, shutil, sys
from pathlib import Path
VERIF = Path(__file__).resolve().parent.parent
name, src, needs, *extra = sys.argv[1:]
pid = name[:3]
src = Path(src)
d = VERIF / "seeded" / name
d.mkdir(parents=True, exist_ok=True)
shutil.copy(src / "patch.diff", d / "patch.diff")
shutil.copy(src / "demo.py", d / "demo.py")
if (src / "notes.md").exists():
    shutil.copy(src / "notes.md", d / "author_notes.md")
meta = {
    "property": pid,
    "origin": "independent sub-agent given only the property text and a scratch worktree",
    "needs_to_manifest": needs,
    "checks_to_run": [pid, *extra],
    "confirmed": {},
}
mp = d / "meta.json"
if mp.exists():
    old = json.loads(mp.read_text())
    meta["confirmed"] = old.get("confirmed", {})
mp.write_text(json.dumps(meta, indent=1) + "\n")
print("filed", d)
