#!/usr/bin/env python3
"""Regenerates seeded/README.md from the meta.json files and the last seeded_run results."""

from __future__ import annotations

import json
from pathlib import Path

VERIF = Path(__file__).resolve().parent.parent
S = VERIF / "seeded"


def load(name: str) -> dict:
    p = S / name
    return {r["id"]: r for r in json.loads(p.read_text())} if p.exists() else {}


def main() -> None:
    quick = load("results_quick.json")
    allp = load("results_quick_allprops.json")
    rows = []
    for d in sorted(p for p in S.iterdir() if (p / "meta.json").exists()):
        m = json.loads((d / "meta.json").read_text())
        r = quick.get(d.name, {})
        clause = ""
        chk = r.get("checks", {}).get(m["property"], {})
        for ln in chk.get("first", []):
            if "clause=" in ln:
                clause = ln.split("clause=")[1].split(" ")[0]

        others = [p for p in allp.get(d.name, {}).get("caught_by", []) if p != m["property"]]
        rows.append((d.name, m, r.get("result", "not run"), clause, others))

    out = [
        "# Seeded breaking changes by independent authors",
        "",
        "Each directory holds one change to `/repo/src` written by a fresh sub-agent that was",
        "given only the text of one property and a scratch worktree of the repository (nothing",
        "from `/verif`), asked to break the property while the code still compiles and the",
        "repository's tests still pass, and to need something specific to manifest:",
        "",
        "* `patch.diff` - the change (never committed to `/repo`)",
        "* `demo.py` - the author's demonstration: exit 0 on the pristine tree, exit 1 with the change",
        "* `meta.json` - property, what it needs to manifest, what was run to confirm it, what the",
        "  check said when first run against it, how the check was strengthened if it missed",
        "* `author_notes.md` - the author's own notes",
        "",
        "Every change was confirmed independently on scratch copies (`tools/seeded_confirm.sh`:",
        "patch applies, compiles, demo 0/1, related repository tests pass; `tools/seeded_fullsuite.sh`:",
        "the whole baseline suite).  `tools/seeded_run.py` re-runs the checks against all of them",
        "(`--in-place` does literally `git -C /repo apply` / `git -C /repo checkout -- .`).",
        "",
        "Directories `Cxx` are round 1, `Cxx-b` round 2, `Cxx-c` round 3, `Cxx-d` round 4, `Cxx-e` round 5, `Cxx-f` round 6; round 7 (six properties, \"round\": 7 in meta.json) took the next free suffix - `C04-e`, `C12-f`, `C14-g`, `C16-g`, `C17-g`, `C19-g`; `-e2` / `-f2` are changes written for another property and filed under the one they break (from round 2 on the authors",
        "were told which mechanisms the earlier rounds had used and asked for a different one).",
        "",
        "| id | property | needs to manifest | first run | now (quick) | clause that fires | also caught by |",
        "|---|---|---|---|---|---|---|",
    ]
    for name, m, res, clause, others in rows:
        needs = m["needs_to_manifest"].replace("|", "/")
        if len(needs) > 230:
            needs = needs[:227] + "..."

        out.append(
            f"| {name} | {m['property']} | {needs} | {m.get('check_result_when_first_run', '?')} "
            f"| {res} | `{clause}` | {', '.join(others) or '-'} |"
        )

    missed_first = [n for n, m, *_ in rows if str(m.get("check_result_when_first_run", "")).startswith("MISSED")]
    out += [
        "",
        f"{len(rows)} changes; {len(rows) - len(missed_first)} were caught by the checks as they stood when the "
        f"change arrived, {len(missed_first)} were missed at first ({', '.join(missed_first) or '-'}) and led to "
        "the strengthening recorded in their `meta.json` (`strengthening`) and in DESIGN.md 10.4.",
        "",
    ]
    (S / "README.md").write_text("\n".join(out))
    print("\n".join(out[-4:]))


if __name__ == "__main__":
    main()
