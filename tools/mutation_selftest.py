#!/usr/bin/env python3
"""Mutation self-test (DESIGN.md 2.9): how the monitors earn trust.

Each mutant in /verif/mutants/table.py is a small compiling change to an anchored mechanism
(string replacement that must match exactly once).  For each selected mutant this tool
copies /repo/src to a scratch directory OUTSIDE /repo and /verif, applies the change, runs
the property's quick check with VERIF_REPO pointing at the scratch copy, expects exit 1,
optionally runs the related repository tests against the mutant (--tests) to see whether
the suite would have caught it, and removes the scratch copy at once.

    python3 tools/mutation_selftest.py [--only C09] [--id name] [--tests] [--tier quick]
"""

from __future__ import annotations

import argparse
import json
import os
import shutil
import subprocess
import sys
import tempfile
import time
from concurrent.futures import ThreadPoolExecutor
from pathlib import Path

VERIF = Path(__file__).resolve().parent.parent
REPO = Path("/repo")


def load_table() -> list[dict]:
    ns: dict = {"MUTANTS": []}

    def mutant(id, prop, file, old, new, tests=None, note="", count=1):  # noqa: ANN001, A002
        ns["MUTANTS"].append(
            dict(id=id, prop=prop, file=file, old=old, new=new, tests=tests, note=note,
                 count=count)  # fmt: skip
        )

    ns["mutant"] = mutant
    exec((VERIF / "mutants" / "table.py").read_text(), ns)
    return ns["MUTANTS"]


def run_mutant(m: dict, tier: str, with_tests: bool, jobs: int) -> dict:
    scratch = Path(tempfile.mkdtemp(prefix="anyio-mut-"))
    try:
        shutil.copytree(REPO / "src", scratch / "src")
        target = scratch / m["file"]
        text = target.read_text()
        if text.count(m["old"]) != m["count"]:
            return {"id": m["id"], "prop": m["prop"], "result": "STALE",
                    "detail": f"pattern occurs {text.count(m['old'])}x"}  # fmt: skip

        target.write_text(text.replace(m["old"], m["new"]))
        r = subprocess.run(
            [sys.executable, "-m", "py_compile", str(target)], capture_output=True, text=True
        )
        if r.returncode:
            return {"id": m["id"], "prop": m["prop"], "result": "NOCOMPILE", "detail": r.stderr}

        res: dict = {"id": m["id"], "prop": m["prop"], "note": m["note"]}
        props = m["prop"] if isinstance(m["prop"], list) else [m["prop"]]
        for prop in props:
            env = dict(os.environ, VERIF_REPO=str(scratch), VERIF_JOBS=str(jobs))
            t0 = time.monotonic()
            p = subprocess.run(
                [str(VERIF / "check"), prop, "--tier", tier, "--no-evidence"],
                env=env, capture_output=True, text=True,
            )  # fmt: skip
            lines = [ln for ln in p.stdout.splitlines() if ln.startswith(("VIOLATION", "  clause"))]
            res[prop] = {
                "exit": p.returncode,
                "wall_s": round(time.monotonic() - t0, 1),
                "first": lines[:2],
            }

        res["result"] = (
            "CAUGHT" if all(res[p]["exit"] == 1 for p in props) else "MISSED"
        )
        if with_tests and m["tests"]:
            # copy tests next to the mutated src so that pytest picks the scratch tree
            shutil.copytree(REPO / "tests", scratch / "tests")
            shutil.copy(REPO / "pyproject.toml", scratch / "pyproject.toml")
            env = dict(os.environ, PYTHONPATH=str(scratch / "src"), PYTHONDONTWRITEBYTECODE="1")
            try:
                p = subprocess.run(
                    ["/venv/bin/python", "-m", "pytest", "-q", "-x", "-p", "no:cacheprovider",
                     "--timeout=300", *m["tests"]],
                    cwd=scratch, env=env, capture_output=True, text=True, timeout=1200,
                )  # fmt: skip
                res["suite"] = "passes" if p.returncode == 0 else "fails"
                res["suite_tail"] = p.stdout.strip().splitlines()[-1:] if p.stdout else []
            except subprocess.TimeoutExpired:
                res["suite"] = "hangs"

        return res
    finally:
        shutil.rmtree(scratch, ignore_errors=True)


def main() -> int:
    ap = argparse.ArgumentParser()
    ap.add_argument("--only", action="append")
    ap.add_argument("--id", action="append")
    ap.add_argument("--tests", action="store_true")
    ap.add_argument("--tier", default="quick")
    ap.add_argument("--parallel", type=int, default=4)
    ap.add_argument("--report", default=str(VERIF / "mutation_report.json"))
    a = ap.parse_args()
    muts = load_table()
    if a.only:
        muts = [m for m in muts if set(a.only) & set(m["prop"] if isinstance(m["prop"], list) else [m["prop"]])]

    if a.id:
        muts = [m for m in muts if m["id"] in a.id]

    jobs = max(2, 16 // a.parallel)
    with ThreadPoolExecutor(a.parallel) as ex:
        results = list(ex.map(lambda m: run_mutant(m, a.tier, a.tests, jobs), muts))

    for r in results:
        props = [k for k in r if k.startswith("C") and isinstance(r[k], dict)]
        extra = " ".join(f"{p}:exit={r[p]['exit']}({r[p]['wall_s']}s)" for p in props)
        first = ""
        for p in props:
            if r[p]["first"]:
                first = r[p]["first"][-1].strip()[:150]

        print(f"{r['result']:9s} {r['id']:45s} {extra} {r.get('suite', '')} {first}")

    # merge into the report
    rp = Path(a.report)
    old = json.loads(rp.read_text()) if rp.exists() else {}
    for r in results:
        old[r["id"]] = r

    rp.write_text(json.dumps(old, indent=1, sort_keys=True))
    missed = [r["id"] for r in results if r["result"] != "CAUGHT"]
    print(f"{len(results) - len(missed)}/{len(results)} caught; not caught: {missed}")
    return 0


if __name__ == "__main__":
    sys.exit(main())
