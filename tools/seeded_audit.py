#!/usr/bin/env python3
"""Audits where each seeded patch lands on the CURRENT tree.

`git apply` places a hunk by context; after many fixes to the library the line numbers of the
patches are stale, and a hunk whose context occurs twice in the file (Lock.acquire /
Semaphore.acquire ...) can land in the wrong place without any error.  For every patch this
tool applies it (a) to the blob it was written against (the `index <old>..` id of the patch,
still in /repo's object database) and (b) to the current tree, and compares the enclosing
`class` / `def` of every changed line.  Prints the patches whose hunks moved.
"""
from __future__ import annotations

import re
import subprocess
import sys
import tempfile
from pathlib import Path

VERIF = Path(__file__).resolve().parent.parent


def enclosing(lines: list[str], idx: int) -> tuple[str, str]:
    cls = fn = ""
    indent_fn = None
    for i in range(idx, -1, -1):
        ln = lines[i]
        m = re.match(r"(\s*)(async def|def) (\w+)", ln)
        if m and not fn and (indent_fn is None):
            if len(m.group(1)) < len(lines[idx]) - len(lines[idx].lstrip()) or i == idx:
                fn = m.group(3)
                indent_fn = len(m.group(1))
        m = re.match(r"class (\w+)", ln)
        if m:
            cls = m.group(1)
            break
    return cls, fn


def changed_scopes(before: str, after: str) -> set:
    import difflib

    a, b = before.splitlines(), after.splitlines()
    out = set()
    for tag, i1, i2, j1, j2 in difflib.SequenceMatcher(None, a, b, autojunk=False).get_opcodes():
        if tag != "equal":
            out.add(enclosing(b, min(max(j1, 0), len(b) - 1)))
    return out


def audit(sdir: Path) -> str | None:
    patch = (sdir / "patch.diff").read_text()
    problems = []
    for m in re.finditer(r"diff --git a/(\S+) b/\S+\nindex ([0-9a-f]+)\.\.", patch):
        path, blob = m.group(1), m.group(2)
        orig = subprocess.run(["git", "-C", "/repo", "cat-file", "-p", blob], capture_output=True, text=True)
        if orig.returncode:
            problems.append(f"{path}: original blob {blob} not found")
            continue

        cur = (Path("/repo") / path).read_text()
        res = []
        for base in (orig.stdout, cur):
            with tempfile.TemporaryDirectory(prefix="anyio-audit-") as td:
                f = Path(td) / path
                f.parent.mkdir(parents=True)
                f.write_text(base)
                p = subprocess.run(["git", "apply", "--include", path, str(sdir / "patch.diff")], cwd=td,
                                   capture_output=True, text=True)
                if p.returncode:
                    res.append(None)
                else:
                    res.append(changed_scopes(base, f.read_text()))

        if res[1] is None:
            problems.append(f"{path}: does not apply to the current tree")
        elif res[0] is None:
            pass  # re-based patch: written against a tree that is not a committed blob
        elif res[0] != res[1]:
            problems.append(f"{path}: written for {sorted(res[0])}, lands in {sorted(res[1])}")

    return "; ".join(problems) or None


if __name__ == "__main__":
    bad = 0
    for d in sorted((VERIF / "seeded").iterdir()):
        if (d / "patch.diff").exists():
            r = audit(d)
            if r:
                bad += 1
                print(d.name, "!!", r)
    print("audited; misplaced:", bad)
    sys.exit(1 if bad else 0)
