#!/bin/bash
# Confirms a candidate seeded change produced in a scratch worktree:
#   tools/seeded_confirm.sh /tmp/seed-C09 [test files...]
# 1. the worktree's diff equals its patch.diff and touches only src/
# 2. demo.py exits 0 on a pristine copy of /repo/src and 1 on the copy with the patch
# 3. (optional) the named repository test files pass against the patched copy
set -u
W=$1; shift
S=$(mktemp -d /tmp/anyio-confirm-XXXXXX)
trap 'rm -rf "$S"' EXIT
echo "== diff in worktree vs patch.diff"
git -C "$W" diff -- src | diff -q - "$W/patch.diff" && echo same
git -C "$W" status --porcelain | grep -v '^??' | grep -v ' src/' && echo "!! changes outside src"
grep '^+++ ' "$W/patch.diff"
mkdir "$S/clean" "$S/mut"
cp -r /repo/src "$S/clean/src"; cp -r /repo/src "$S/mut/src"
(cd "$S/mut" && git apply "$W/patch.diff") || { echo "!! patch does not apply to /repo/src"; exit 2; }
/venv/bin/python -m compileall -q "$S/mut/src" >/dev/null || echo "!! does not compile"
echo "== demo on pristine copy"
(cd "$W" && PYTHONPATH="$S/clean/src" timeout 120 /venv/bin/python demo.py >"$S/clean.out" 2>&1); echo "exit $?"; tail -3 "$S/clean.out"
echo "== demo on patched copy"
(cd "$W" && PYTHONPATH="$S/mut/src" timeout 120 /venv/bin/python demo.py >"$S/mut.out" 2>&1); echo "exit $?"; tail -8 "$S/mut.out"
if [ $# -gt 0 ]; then
  echo "== tests on patched copy: $*"
  (cd /repo && PYTHONPATH="$S/mut/src" /venv/bin/python -m pytest -q -p no:cacheprovider --timeout=600 -x "$@" 2>&1 | tail -4)
fi
