#!/usr/bin/env python3
"""dev helper: run N generated tree programs of a profile in-process and print every clause
of every property (used to triage oracle false alarms).
   PYTHONPATH=/repo/src:/verif /venv/bin/python tools/treedev.py c04 1 4000 [clause-substring]"""
import collections, json, random, sys
sys.path.insert(0, "/verif")
from vf import tree, treegen
profile, seed, n = sys.argv[1], int(sys.argv[2]), int(sys.argv[3])
want = sys.argv[4] if len(sys.argv) > 4 else None
rng = random.Random(seed * 7901 + hash(profile) % 1000)
kinds = collections.Counter(); first = {}
for i in range(n):
    case = treegen.gen(rng, profile, ["stock", "eager"])
    res = tree.execute(case)
    for p, c, d in res["viol"]:
        kinds[(p, c)] += 1
        if (p, c) not in first: first[(p, c)] = (case, d, res["log_tail"])
for k, v in kinds.most_common(): print(v, k)
for k, (case, d, log) in first.items():
    if want and want not in k[1]: continue
    print("=" * 100); print(k, json.dumps(d, default=str)[:600]); print("case:", json.dumps(case))
    for e in log: print("   ", " ".join(e))
