#!/usr/bin/env python3
"""print the first case of a profile/seed/n hitting a clause: header, case json, full trace"""
import json, random, sys
sys.path.insert(0, "/verif")
from vf import tree, treegen
profile, seed, n, want = sys.argv[1], int(sys.argv[2]), int(sys.argv[3]), sys.argv[4]
rng = random.Random(seed * 7901 + hash(profile) % 1000)
for i in range(n):
    case = treegen.gen(rng, profile, ["stock", "eager"])
    res = tree.execute(case)
    hit = [(p, c, d) for p, c, d in res["viol"] if want in c]
    if hit:
        print(hit[0][0], hit[0][1], json.dumps(hit[0][2], default=str)[:900])
        print("case:", json.dumps(case))
        r = tree.Run(case)
        for e in res["log_tail"]: print("   ", " ".join(e))
        break
