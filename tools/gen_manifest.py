#!/usr/bin/env python3
"""Regenerates /verif/MANIFEST.json from the table below and validates it.

    python3 tools/gen_manifest.py
"""

from __future__ import annotations

import json
import subprocess
import sys
from pathlib import Path

VERIF = Path(__file__).resolve().parent.parent

# property -> (technique, level text, level note, design ref)
CHECKS: dict[str, tuple[str, str, str, str]] = {}


def claim(pid: str, technique: str, text: str, note: str, ref: str) -> None:
    CHECKS[pid] = (technique, text, note, ref)


exec((VERIF / "tools" / "manifest_table.py").read_text())  # fills CHECKS / NOT_APPLICABLE

ALL = [f"C{i:02d}" for i in range(1, 21)]


def main() -> int:
    repo_commits = subprocess.run(
        ["git", "-C", "/repo", "log", "--format=%H %s"], capture_output=True, text=True
    ).stdout.splitlines()
    hook_commits = [c.split()[0] for c in repo_commits if " verif-hook:" in c]
    checks = []
    for pid in ALL:
        if pid not in CHECKS:
            continue

        technique, text, note, ref = CHECKS[pid]
        checks.append(
            {
                "property_id": pid,
                "quick_cmd": f"./check {pid} --tier quick",
                "thorough_cmd": f"./check {pid} --tier thorough",
                "evidence_file": f"evidence/{pid}.json",
                "replay_cmd_template": f"./check {pid} --replay {{path}}",
                "engine": "vf",
                "level_claimed": {"category": "fault_enumeration" if pid == "C17" else "exploration", "text": text, "design_ref": ref},
                "level_note": note,
                "technique": technique,
            }
        )

    na = [
        {"property_id": pid, "reason": NOT_APPLICABLE.get(pid, "check not built yet")}  # noqa: F821
        for pid in ALL
        if pid not in CHECKS
    ]
    manifest = {
        "version": 1,
        "setup_cmd": "./check --setup",
        "hooks": {
            "guard": "ANYIO_VERIF",
            "enable": "no source hooks are needed: every monitor observes at the API "
            "boundary, through public statistics, or through the event loop the harness "
            "supplies; checks import the working tree via PYTHONPATH=$VERIF_REPO/src "
            "(default /repo/src) in fresh interpreters",
            "baseline_off_cmd": "cd /repo && /venv/bin/python -m pytest -ra -q -p "
            "no:cacheprovider --timeout=900 --continue-on-collection-errors",
            "source_commits": hook_commits,
            "add_only": True,
        },
        "engines": [
            {
                "name": "vf",
                "path": "vf/",
                "serves_properties": sorted(CHECKS),
                "kind_free_text": "runtime monitoring: generated hostile workloads run "
                "against the real anyio code on a virtual-time event loop / real threads "
                "/ real sockets; oracles over recorded API-boundary histories, reference "
                "models, icontract invariants on synchronous critical sections",
            }
        ],
        "checks": checks,
        "not_applicable": na,
        "notes": "All checks: exit 0 held / 1 VIOLATION (replay file) / 2 inconclusive "
        "(watchdog, deciding monitor never reached). known_findings.json lists genuine "
        "defects by mechanism. See DESIGN.md.",
    }
    out = VERIF / "MANIFEST.json"
    out.write_text(json.dumps(manifest, indent=1) + "\n")
    try:
        import jsonschema  # type: ignore

        schema = json.loads(Path("/root/.vp/MANIFEST.schema.json").read_text())
        jsonschema.validate(manifest, schema)
        print("MANIFEST.json valid;", len(checks), "checks,", len(na), "not_applicable")
    except ImportError:
        print("MANIFEST.json written (jsonschema not importable here; not validated)")

    return 0


if __name__ == "__main__":
    sys.exit(main())
