# Table read by gen_manifest.py (exec'd): claim(pid, technique, level text, level note, design ref)
NOT_APPLICABLE = {}

claim(
    "C19",
    "differential runtime monitor: real anyio.itertools/reduce vs stdlib on enumerated+random inputs; tee history oracle",
    "Held on every executed case: exhaustive small input space (sequences <=4 over {0,1}, <=3 over {0,1,2}; every "
    "parameter slot over {None,-1,0,1,2,3}) plus seeded longer inputs, sync and async sources, and all/sampled tee "
    "consumer interleavings incl. concurrent consumers over a suspending source. Observational: says nothing about "
    "inputs outside the explored classes.",
    "CPython 3.12 itertools/functools as reference; error agreement judged on exception class; pass-through functions and tee also run with elements None/0/''/False",
    "DESIGN.md 5/C19",
)

claim(
    "C16",
    "reference-model runtime monitor: byte-accounting identity + per-call postconditions on the real wrappers over enumerated inputs/chunkings/call sequences; codecs differential for text",
    "Held on every executed history: exhaustive over byte strings over {a,b,\\n} up to length 6 (7 thorough) x all "
    "chunkings x both wrapped-stream kinds x every single call, plus seeded multi-call histories with feed_data and "
    "longer inputs; text: all 1-/2-cut splits of mixed 1-4-byte code point strings in 8 encodings and send->receive "
    "round trips. Observational; inputs outside these classes are not judged.",
    "harness-owned wrapped streams deliver non-empty chunks; stdlib codecs as reference; feed_data during a suspended call is judged by per-origin conservation (order undetermined there)",
    "DESIGN.md 5/C16",
)

claim(
    "C09",
    "runtime monitor on a virtual-time loop: online holder-set/owner monitor + FIFO history oracle + icontract invariants at sync exits + justified-deadlock detection, under swept scope/native cancellations",
    "Held on every executed schedule: exhaustive sweep of the cancel cycle (0..13) x agent placement x victim x "
    "scope|native cancel x fast_acquire x {stock, eager} over 3-actor base programs, plus seeded random 2-5 actor "
    "programs (acquire/nowait/ctx/misuse). Evidence reports how often each critical window (cancel inside acquire, "
    "cancel after ownership transfer) was actually hit. Schedules not produced are not judged.",
    "asyncio FIFO ready queue; VLoop (SelectorEventLoop subclass) deadlock detection; native Task.cancel of waiters is supported usage",
    "DESIGN.md 5/C09",
)
claim(
    "C10",
    "runtime monitor on a virtual-time loop: permit-conservation monitor vs reported counters at every op boundary, icontract grant invariants at sync exits (incl. total_tokens setter), FIFO obligations, justified-deadlock detection",
    "Held on every executed history: cancel-cycle sweeps over Semaphore/CapacityLimiter base programs, the "
    "lower-below-borrowed-then-raise family of total_tokens assignments (where F1 lived), seeded random histories "
    "with on_behalf_of, extra releases, max_value, misuse, scope and native cancellation on {stock, eager}.",
    "as C09; concurrent waits on behalf of one borrower object are not generated",
    "DESIGN.md 5/C10",
)

claim(
    "C12",
    "runtime monitor on a virtual-time loop: unique-item history oracle (exactly-once accounting by draining at quiescence, per-sender order, FIFO expectations sampled by pre-call observers), buffer bound + icontract invariants at sync exits, justified-deadlock detection; known finding F7 classified by mechanism",
    "Held (apart from the listed known finding F7) on every executed schedule: exhaustive cancel sweep around both "
    "hand-over base programs x buffer sizes x scope|native cancel x placement, plus seeded multi-clone programs on "
    "{stock, eager}. Evidence counts how often each hand-over window was hit.",
    "as C09; one actor per stream handle; a spare receive clone keeps accounting exact",
    "DESIGN.md 5/C12",
)
claim(
    "C13",
    "runtime monitor on a virtual-time loop: truth conditions of EndOfStream/BrokenResourceError/ClosedResourceError checked at the raising instant against the monitor's own open-clone sets, open-count audit at every op boundary, Broken quota at last receive-side close, icontract close invariants, justified-deadlock detection",
    "Held on every executed history: exhaustive sweep of the cycle at which the LAST clone of a side is closed (by an "
    "agent) with 1-3 peers blocked on the other side, plus seeded histories of clone/close/double close/ops after "
    "close with scope and native cancellations.",
    "as C09; handles are closed by their user or by a third party (also while their user is blocked on them); a ClosedResourceError is judged by the handle's state at the raise",
    "DESIGN.md 5/C13",
)

claim(
    "C11",
    "runtime monitor on a virtual-time loop: queue automaton driven in lock-step by the observed history (transitions taken at the exact instants marked by a pre-call observer on Condition.acquire), queue length cross-checked with statistics(); Event history oracle; enumerated refusal matrix",
    "Held on every executed schedule: exhaustive sweep of the cancel cycle x placement x victim x scope|native "
    "around one/two notifications over the 3-waiter base program, Event set/cancel sweeps, the complete refusal "
    "matrix (3 caller kinds x 3 methods x 0-2 queued waiters) on {stock, eager}, plus seeded random programs.",
    "as C09; refusal also right after release() handed the lock to a queued contender; wait() raising (not returning) after a NATIVE cancel during its shielded re-acquire is outside the statement and only counted",
    "DESIGN.md 5/C11",
)

claim(
    "C20",
    "runtime monitor on a virtual-time loop in four strata (S4: concurrent warm-up without eviction, then sequential eviction pressure vs a reference LRU ordered by use): S1 sequential lock-step differential vs a reference LRU (functools.lru_cache / reference with ttl), S2 strict concurrent history oracle (unique tokens, overlap, staleness, cross-key blocking, retention), S3 same oracle with F3 symptoms classified by mechanism precondition",
    "Held (apart from the listed known findings F3, F16, F19, F27, F35 - all rooted in the size accounting of the wrapper) on every executed history: seeded sequential sequences over maxsize/typed/ttl "
    "with virtual clock jumps, seeded concurrent histories with suspensions, failures, scope and native cancellations, cache_clear() agents, "
    "virtual sleeps that let entries expire under concurrent callers, one wrapper used in two event loops (S5), calls made in an already cancelled scope.",
    "functools.lru_cache as reference where it applies; retained results counted via the public lru_cache_items RunVar; cache_info() not judged concurrently",
    "DESIGN.md 5/C20",
)

claim(
    "C08",
    "runtime monitor over a completely enumerated operation x state x config table: call_soon marker (yield), cancelled-scope probe (cancellation check), object-state probe (effect not performed)",
    "The declared table (every listed primitive in each state where it completes without waiting, Condition.wait and to_thread in a "
    "cancelled scope, reduce, the empty task group, all 20 itertools functions x 4 source kinds x parameters) is enumerated "
    "completely on asyncio, asyncio+eager and uvloop every run; thorough adds seeded parameter variation. Cells outside the table are not judged.",
    "a call_soon callback queued before the call runs iff the call yielded; fast_acquire and *_nowait/close are exempt by the statement; the cancelled-scope half runs in six shapes of a cancelled scope (plain, shielded+cancelled, cancelled parent, expired deadline with/without shield, shield set after cancel)",
    "DESIGN.md 5/C08",
)

_TREE_NOTE = ("asyncio FIFO ready queue (never reordered); VLoop virtual time; generated code never swallows a cancellation; "
              "the independent shadow scope model (vf/shadow.py) is kept in lock-step by the interpreter; same-instant / in-flight "
              "ties accept both coherent outcomes and are counted in the evidence")
claim("C01", "runtime monitor: generated task-tree programs interpreted against the real API on a virtual-time loop (plus a second engine: native cancellation of the host inside __aexit__ with a late spawn); per-group join oracle over the API-boundary event log (member ended, asyncio task done, handle final and truthful, no step after exit)",
      "Held on every executed schedule: seeded random task trees (nested groups, spawn after cancel / from cleanup, start() children, shielded cleanup) with cancel/shield/deadline agents at every cycle, plus swept families (spawn during the empty-group exit checkpoint, cancels arriving at every cycle of __aexit__) on {stock, eager}; native-cancel-in-__aexit__ matrix on {stock, eager, uvloop}.",
      _TREE_NOTE, "DESIGN.md 5/C01")
claim("C02", "runtime monitor: compositional exception-leaf accounting by object identity per group over the event log; siblings-cancelled clause through the shadow scope model",
      "Held on every executed schedule: seeded random failure plans (raise before/while/after being cancelled, Boom from cleanup, mixed synthetic groups, start() children whose caller is cancelled) plus the failure-then-shield family.",
      _TREE_NOTE, "DESIGN.md 5/C02")
claim("C03", "runtime monitor: bounded-progress oracle on a cycle-counting virtual-time loop (Deadlock in an effectively cancelled scope, delivery latency <= 4 cycles, no normal completion of an operation entered in a cancelled scope) against the shadow scope model",
      "Held on every executed schedule: seeded random programs with blocking ops (sleep_forever, sleeps, event waits, handle waits) under cancels from self/sibling/agent before entry, while blocked, while runnable, during shielded cleanup, after catch-and-continue; exhaustive scope-chain family; spawn-into-cancelled-group family; checkpoint_if_cancelled() with shields raised around it (late_shield family; a program that spins is a violation). Measured maximum latency is recorded.",
      _TREE_NOTE, "DESIGN.md 5/C03")
claim("C04", "runtime monitor: shadow scope model evaluated at every interruption and every scope exit (absorb iff own cancel and no visible cancelled parent; cancelled_caught == absorbed; other exceptions pass, also inside groups)",
      "Held on every executed schedule: exhaustive scope chains of depth<=3 x shields x cancelled subsets x timing x canceller with a bystander task, plus seeded deep trees with shields toggled while active and synthetic mixed exception groups (every case with a native cancellation also with the __context__ chain native -> ordinary error -> AnyIO cancellation).",
      _TREE_NOTE, "DESIGN.md 5/C04")
claim("C05", "runtime monitor: Task.cancelling() restored at scope/group exits in clean regions (also from a non-zero baseline: tasks holding native requests), no live loop handle of an exited scope, idle-loop cycle count, twin-differential runs of native asyncio constructs (timeout, TaskGroup, native cancel through a cancelled scope)",
      "Held on every executed schedule: seeded programs, scope-history family (1-4 scopes in sequence x 0-5 swallowed re-deliveries x nesting x deadlines), native twins (4 scenarios x re-deliveries x nesting x children; native children cancelling the parent's scope) on {stock, eager}; native constructs firing while the scope's own cancellation unwinds; known findings F21 (eager factory, CPython < 3.13) and F36 (native cancellation absorbed during the unwinding) classified by mechanism.",
      _TREE_NOTE, "DESIGN.md 5/C05")
claim("C06", "runtime monitor on an exact virtual clock: interruption instants, flags and TimeoutError compared with the shadow model's discrete-event latching of deadlines; current_effective_deadline() probes",
      "Held on every executed program: exhaustive nests of <=3 deadline scopes x shields x 6-point deadline grid x 1-3 sleeps (plain, helper and reassign variants), plus seeded deadline-heavy programs with move_on_*/fail_* helpers, reassignments and timed agents. Not decided on uvloop (no virtual time).",
      _TREE_NOTE + "; fail_* scopes never cancelled explicitly / no reassignment after firing (proviso)", "DESIGN.md 5/C06")
claim("C07", "runtime monitor: case analysis over the logged order of started(), child end, caller cancellation, start() return/raise and group exit, plus C02's leaf accounting for errors raised while unwinding",
      "Held on every executed schedule: exhaustive start() sweep (k checkpoints then started/raise/return/block x afterwards x cleanup variant x caller/group cancel at every cycle x return_handle) plus seeded random programs with nested start() chains.",
      _TREE_NOTE, "DESIGN.md 5/C07")

claim("C14", "runtime monitor with real threads: thread-safe event monitor (global sequence numbers) over gated thread functions, online bound on concurrently running non-abandoned functions, offline identity/ordering oracle; sys.monitoring preemption amplification; asyncio debug mode",
      "Held (apart from the listed known finding F23: callbacks of abandoned threads) on every executed call set: seeded call sets (1-12 calls vs limiter 1-4; flag passed as abandon_on_cancel=, as the deprecated cancellable= alone, or both with conflicting values; return/raise/from_thread callbacks (also ones taking an uncontended lock, with a loop-iteration counter against spinning)/check_cancelled probes; abandon_on_cancel on/off; nested scopes; cancels before start, while running, after the gate) with gate permutations and injected delays on asyncio(debug) and uvloop. Real-time: watchdog expiry is inconclusive.",
      "OS thread scheduling plus injected pauses (only pauses the OS could add); wall-clock watchdogs are inconclusive, never violations, unless all thread functions are known to have ended; a share of the cases lowers the class constant WorkerThread.MAX_IDLE_TIME (10 s) to 0-4 ms from the harness so that idle-worker pruning happens",
      "DESIGN.md 5/C14")
claim("C15", "runtime monitor with real threads: exactly-once / routing / join oracle over a thread-safe event log of caller threads, portal tasks and a conductor thread; bounded-progress rule for future cancellation with a loop heartbeat; preemption amplification; known finding F14 classified by mechanism",
      "Held (apart from the listed known finding F14) on every executed case: 1-6 caller threads (plain threads and worker threads of another event loop) x 1-8 calls (sync, coroutine, gated tasks, start_task, self-ending tasks whose future is cancelled around their completion), future cancellation, explicit stop mid-way, normal / early / exceptional exit on asyncio and uvloop.",
      "as C14; a wait that times out after the portal context exited is a violation (orphaned call), before that it is inconclusive",
      "DESIGN.md 5/C15")
claim("C17", "fault enumeration by runtime monitoring: two real TLSStream endpoints over a harness-owned in-memory transport on the virtual-time loop; every ciphertext byte offset of the base session is cut in turn; position-dependent payload oracle; Deadlock detection for the pump loop",
      "Held on every executed session: cut offsets enumerated over the whole ciphertext of both directions (every offset in thorough, every 2nd in quick) x TLS 1.2/1.3 x standard_compatible on/off, chunk policies (1-byte, random, coalescing), seeded larger sessions (0 B .. 40 KB messages, both directions busy) with random cuts.",
      "OpenSSL via ssl, trustme certificates; the Wire delivers in order and a cut drops everything after the offset; the transport's send() takes 1-4 cycles and rejects a second concurrent sender like SocketStream does; after a detected truncation a second receive and a send are issued",
      "DESIGN.md 5/C17")

claim("C18", "runtime monitor on real sockets: position-dependent byte-stream oracle, chunk-size bounds, in-flight-bytes bound sampled while the reader is stalled (SO_SNDBUF/SO_RCVBUF pinned), EOF / closed-stream / busy-direction probes, close by a third task under blocked receive()/send(), close under cancellation / racing send, timed-out sends against a silent peer (user-space write buffer bounded), send_fds() messages below and above the socket buffer size",
      "Held on every executed session: TCP loopback and UNIX sockets on asyncio and uvloop, both role assignments (accepted side reading / connecting side reading), message sizes 1 B..256 KiB and 1-2 MiB stall sessions, reader stalls before the first receive and mid-stream, full duplex, EOF by send_eof and aclose.",
      "Linux loopback/AF_UNIX semantics; real time: sessions without completion inside the watchdog are inconclusive - except a receive()/send() still blocked 15 s after the local close, which the statement forbids (never blocking); sessions over un-shrunk kernel buffers judge integrity/order only (no fixed capacity for the in-flight bound)",
      "DESIGN.md 5/C18")
