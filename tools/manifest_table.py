# Table read by gen_manifest.py (exec'd): claim(pid, technique, level text, level note, design ref)
NOT_APPLICABLE = {}

claim(
    "C19",
    "differential runtime monitor: real anyio.itertools/reduce vs stdlib on enumerated+random inputs; tee history oracle",
    "Held on every executed case: exhaustive small input space (sequences <=4 over {0,1}, <=3 over {0,1,2}; every "
    "parameter slot over {None,-1,0,1,2,3}) plus seeded longer inputs, sync and async sources, and all/sampled tee "
    "consumer interleavings incl. concurrent consumers over a suspending source. Observational: says nothing about "
    "inputs outside the explored classes.",
    "CPython 3.12 itertools/functools as reference; error agreement judged on exception class",
    "DESIGN.md 5/C19",
)
