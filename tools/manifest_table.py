# Table read by gen_manifest.py (exec'd): claim(pid, technique, level text, level note, design ref)
NOT_APPLICABLE = {}

claim(
    "C19",
    "differential runtime monitor: real anyio.itertools/reduce vs stdlib on enumerated+random inputs; tee history oracle",
    "Held on every executed case: exhaustive small input space (sequences <=4 over {0,1}, <=3 over {0,1,2}; every "
    "parameter slot over {None,-1,0,1,2,3}) plus seeded longer inputs, sync and async sources, and all/sampled tee "
    "consumer interleavings incl. concurrent consumers over a suspending source. Observational: says nothing about "
    "inputs outside the explored classes.",
    "CPython 3.12 itertools/functools as reference; error agreement judged on exception class",
    "DESIGN.md 5/C19",
)

claim(
    "C16",
    "reference-model runtime monitor: byte-accounting identity + per-call postconditions on the real wrappers over enumerated inputs/chunkings/call sequences; codecs differential for text",
    "Held on every executed history: exhaustive over byte strings over {a,b,\\n} up to length 6 (7 thorough) x all "
    "chunkings x both wrapped-stream kinds x every single call, plus seeded multi-call histories with feed_data and "
    "longer inputs; text: all 1-/2-cut splits of mixed 1-4-byte code point strings in 8 encodings and send->receive "
    "round trips. Observational; inputs outside these classes are not judged.",
    "harness-owned wrapped streams deliver non-empty chunks; stdlib codecs as reference",
    "DESIGN.md 5/C16",
)
