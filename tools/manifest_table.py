# Table read by gen_manifest.py (exec'd): claim(pid, technique, level text, level note, design ref)
NOT_APPLICABLE = {}

claim(
    "C19",
    "differential runtime monitor: real anyio.itertools/reduce vs stdlib on enumerated+random inputs; tee history oracle",
    "Held on every executed case: exhaustive small input space (sequences <=4 over {0,1}, <=3 over {0,1,2}; every "
    "parameter slot over {None,-1,0,1,2,3}) plus seeded longer inputs, sync and async sources, and all/sampled tee "
    "consumer interleavings incl. concurrent consumers over a suspending source. Observational: says nothing about "
    "inputs outside the explored classes.",
    "CPython 3.12 itertools/functools as reference; error agreement judged on exception class",
    "DESIGN.md 5/C19",
)

claim(
    "C16",
    "reference-model runtime monitor: byte-accounting identity + per-call postconditions on the real wrappers over enumerated inputs/chunkings/call sequences; codecs differential for text",
    "Held on every executed history: exhaustive over byte strings over {a,b,\\n} up to length 6 (7 thorough) x all "
    "chunkings x both wrapped-stream kinds x every single call, plus seeded multi-call histories with feed_data and "
    "longer inputs; text: all 1-/2-cut splits of mixed 1-4-byte code point strings in 8 encodings and send->receive "
    "round trips. Observational; inputs outside these classes are not judged.",
    "harness-owned wrapped streams deliver non-empty chunks; stdlib codecs as reference",
    "DESIGN.md 5/C16",
)

claim(
    "C09",
    "runtime monitor on a virtual-time loop: online holder-set/owner monitor + FIFO history oracle + icontract invariants at sync exits + justified-deadlock detection, under swept scope/native cancellations",
    "Held on every executed schedule: exhaustive sweep of the cancel cycle (0..13) x agent placement x victim x "
    "scope|native cancel x fast_acquire x {stock, eager} over 3-actor base programs, plus seeded random 2-5 actor "
    "programs (acquire/nowait/ctx/misuse). Evidence reports how often each critical window (cancel inside acquire, "
    "cancel after ownership transfer) was actually hit. Schedules not produced are not judged.",
    "asyncio FIFO ready queue; VLoop (SelectorEventLoop subclass) deadlock detection; native Task.cancel of waiters is supported usage",
    "DESIGN.md 5/C09",
)
claim(
    "C10",
    "runtime monitor on a virtual-time loop: permit-conservation monitor vs reported counters at every op boundary, icontract grant invariants at sync exits (incl. total_tokens setter), FIFO obligations, justified-deadlock detection",
    "Held on every executed history: cancel-cycle sweeps over Semaphore/CapacityLimiter base programs, the "
    "lower-below-borrowed-then-raise family of total_tokens assignments (where F1 lived), seeded random histories "
    "with on_behalf_of, extra releases, max_value, misuse, scope and native cancellation on {stock, eager}.",
    "as C09; concurrent waits on behalf of one borrower object are not generated",
    "DESIGN.md 5/C10",
)
