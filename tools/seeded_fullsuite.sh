#!/bin/bash
# Runs the repository's whole test suite (the baseline command) against one seeded change and
# compares with the baseline-stable list:  tools/seeded_fullsuite.sh <seeded dir>
# The scratch copy lives outside /repo and /verif and is removed afterwards.
set -u
D=$(cd "$1" && pwd)
S=$(mktemp -d /tmp/anyio-suite-XXXXXX)
trap 'rm -rf "$S"' EXIT
git -C /repo archive HEAD | tar -x -C "$S"
# carry over uncommitted changes of /repo (normally none)
(cd "$S" && git apply "$D/patch.diff") || { echo "patch does not apply"; exit 2; }
cd "$S" && PYTHONPATH="$S/src" /venv/bin/python -m pytest -ra -q -p no:cacheprovider --timeout=900 \
   --continue-on-collection-errors --junitxml="$S/suite.xml" > "$S/suite.log" 2>&1
tail -1 "$S/suite.log"
python3 /verif/tools/baseline_compare.py "$S/suite.xml"
