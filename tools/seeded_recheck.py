#!/usr/bin/env python3
"""Re-runs, serially and alone, the baseline-stable tests that did not pass in a (parallel,
loaded) full-suite run against a seeded change:  tools/seeded_recheck.py <seed dir> <log>"""
import re, subprocess, sys, tempfile, shutil
from pathlib import Path
sdir, log = Path(sys.argv[1]).resolve(), Path(sys.argv[2])
ids = []
for ln in log.read_text().splitlines():
    m = re.match(r"\s+(tests\.[\w.]+)::(\S+) (failure|error|absent|skipped)", ln)
    if m:
        mod, rest = m.group(1), m.group(2)
        parts = mod.split(".")
        # tests.test_sockets.TestTCPStream -> tests/test_sockets.py::TestTCPStream
        path, cls = [], []
        for p in parts:
            (cls if p[0].isupper() else path).append(p)
        node = "/".join(path) + ".py" + "".join("::" + c for c in cls) + "::" + rest
        ids.append(node)
if not ids:
    print("nothing to re-check"); sys.exit(0)
S = Path(tempfile.mkdtemp(prefix="anyio-recheck-"))
try:
    subprocess.run(f"git -C /repo archive HEAD | tar -x -C {S}", shell=True, check=True)
    subprocess.run(["git", "apply", str(sdir / "patch.diff")], cwd=S, check=True)
    p = subprocess.run(["/venv/bin/python", "-m", "pytest", "-q", "-p", "no:cacheprovider", "--timeout=600", *ids],
                       cwd=S, env={"PYTHONPATH": str(S / "src"), "PATH": "/usr/bin:/bin:/venv/bin", "HOME": "/root"},
                       capture_output=True, text=True)
    print(len(ids), "re-run:", p.stdout.strip().splitlines()[-1])
    for ln in p.stdout.splitlines():
        if ln.startswith(("FAILED", "ERROR")):
            print("  ", ln[:200])
finally:
    shutil.rmtree(S, ignore_errors=True)
