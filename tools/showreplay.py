#!/usr/bin/env python3
import json, sys
d = json.load(open(sys.argv[1]))
print("property", d["property"], "clause", d["clause"])
print("case:", json.dumps(d["case"]))
det = d["detail"]
if isinstance(det, dict) and "trace" in det:
    for e in det["trace"]:
        print("   ", " ".join(map(str, e)))
    print("detail:", json.dumps(det.get("detail"), default=str)[:1500])
else:
    print("detail:", json.dumps(det, default=str)[:3000])
