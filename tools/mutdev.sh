#!/bin/bash
# usage: tools/mutdev.sh <mutant-id> <profile> <seed> <n> [clause]  -- run treedev against a mutant copy
id=$1; shift
d=$(mktemp -d /tmp/anyio-mutdev-XXXX)
cp -r /repo/src $d/src
python3 - "$id" "$d" <<'PY'
import sys
sys.path.insert(0,'/verif/tools')
ns={"MUTANTS":[]}
def mutant(id, prop, file, old, new, tests=None, note="", count=1): ns["MUTANTS"].append(dict(id=id,file=file,old=old,new=new,count=count))
ns["mutant"]=mutant
exec(open('/verif/mutants/table.py').read(), ns)
m=[x for x in ns["MUTANTS"] if x["id"]==sys.argv[1]][0]
p=sys.argv[2]+"/"+m["file"]; s=open(p).read(); assert s.count(m["old"])==m["count"], s.count(m["old"]); open(p,"w").write(s.replace(m["old"],m["new"]))
PY
PYTHONHASHSEED=0 PYTHONPATH=$d/src:/verif /venv/bin/python /verif/tools/treedev.py "$@"
rm -rf $d
