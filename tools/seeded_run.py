#!/usr/bin/env python3
"""Runs the checks against the independently produced breaking changes in /verif/seeded/.

Each /verif/seeded/<id>/ holds patch.diff (a change to /repo/src that compiles and passes
the repository's tests), the author's demonstration, and meta.json.  Two modes:

  default      copy /repo/src to a scratch directory outside /repo and /verif, apply the
               patch there (git apply works on plain directories), run the checks with
               VERIF_REPO pointing at it, remove the copy.  Safe to run in parallel.
  --in-place   git -C /repo apply <patch>; run; git -C /repo checkout -- .   (serial; refuses
               to start when /repo has uncommitted changes)

    python3 tools/seeded_run.py [--only S-C09] [--tier quick] [--all-props] [--in-place]
                                [--demo] [--parallel 4]

Writes seeded/results.json (what caught what) unless --only is given.
"""

from __future__ import annotations

import argparse
import json
import os
import shutil
import subprocess
import sys
import tempfile
import time
from concurrent.futures import ThreadPoolExecutor
from pathlib import Path

VERIF = Path(__file__).resolve().parent.parent
REPO = Path("/repo")
ALL = [f"C{i:02d}" for i in range(1, 21)]


def run_checks(repo_root: Path, props: list[str], tier: str, jobs: int, seed: str | None) -> dict:
    out: dict = {}
    for prop in props:
        env = dict(os.environ, VERIF_REPO=str(repo_root), VERIF_JOBS=str(jobs))
        cmd = [str(VERIF / "check"), prop, "--tier", tier, "--no-evidence"]
        if seed:
            cmd += ["--seed", seed]

        t0 = time.monotonic()
        p = subprocess.run(cmd, env=env, capture_output=True, text=True)
        lines = [ln for ln in p.stdout.splitlines() if ln.startswith(("VIOLATION", "  clause"))]
        out[prop] = {"exit": p.returncode, "wall_s": round(time.monotonic() - t0, 1),
                     "first": lines[:2]}  # fmt: skip

    return out


def run_demo(repo_root: Path, sdir: Path) -> int | None:
    demo = sdir / "demo.py"
    if not demo.exists():
        return None

    env = dict(os.environ, PYTHONPATH=str(repo_root / "src"))
    try:
        p = subprocess.run(["/venv/bin/python", str(demo)], env=env, capture_output=True,
                           text=True, timeout=120, cwd=str(sdir))  # fmt: skip
    except subprocess.TimeoutExpired:
        return -1

    return p.returncode


def one(sdir: Path, args: argparse.Namespace) -> dict:
    meta = json.loads((sdir / "meta.json").read_text())
    sys.path.insert(0, str(VERIF / "tools"))
    import seeded_audit

    moved = seeded_audit.audit(sdir)
    if moved:
        # git apply would put a hunk somewhere else than where it was written for
        return {"id": sdir.name, "property": meta["property"], "checks": {}, "caught_by": [],
                "result": "MISPLACED: " + moved}  # fmt: skip

    props = ALL if args.all_props else meta["checks_to_run"]
    res: dict = {"id": sdir.name, "property": meta["property"]}
    if args.in_place:
        st = subprocess.run(["git", "-C", str(REPO), "status", "--porcelain"],
                            capture_output=True, text=True).stdout.strip()  # fmt: skip
        if st:
            raise SystemExit(f"/repo is not clean:\n{st}")

        subprocess.run(["git", "-C", str(REPO), "apply", str(sdir / "patch.diff")], check=True)
        try:
            if args.demo:
                res["demo_exit"] = run_demo(REPO, sdir)

            res["checks"] = run_checks(REPO, props, args.tier, args.jobs, args.seed)
        finally:
            subprocess.run(["git", "-C", str(REPO), "checkout", "--", "."], check=True)
    else:
        scratch = Path(tempfile.mkdtemp(prefix="anyio-seeded-"))
        try:
            shutil.copytree(REPO / "src", scratch / "src")
            subprocess.run(["git", "apply", str(sdir / "patch.diff")], check=True,
                           cwd=str(scratch))  # fmt: skip
            if args.demo:
                res["demo_exit"] = run_demo(scratch, sdir)

            res["checks"] = run_checks(scratch, props, args.tier, args.jobs, args.seed)
        finally:
            shutil.rmtree(scratch, ignore_errors=True)

    res["caught_by"] = sorted(p for p, r in res["checks"].items() if r["exit"] == 1)
    res["result"] = "CAUGHT" if meta["property"] in res["caught_by"] else (
        "CAUGHT-ELSEWHERE" if res["caught_by"] else "MISSED")  # fmt: skip
    return res


def main() -> int:
    ap = argparse.ArgumentParser()
    ap.add_argument("--only", action="append")
    ap.add_argument("--tier", default="quick")
    ap.add_argument("--seed")
    ap.add_argument("--all-props", action="store_true")
    ap.add_argument("--in-place", action="store_true")
    ap.add_argument("--demo", action="store_true")
    ap.add_argument("--parallel", type=int, default=1)
    ap.add_argument("--jobs", type=int, default=0)
    args = ap.parse_args()
    if args.in_place:
        args.parallel = 1

    args.jobs = args.jobs or max(2, 16 // args.parallel)
    dirs = sorted(d for d in (VERIF / "seeded").iterdir() if (d / "meta.json").exists())
    if args.only:
        dirs = [d for d in dirs if d.name in args.only]

    with ThreadPoolExecutor(args.parallel) as ex:
        results = list(ex.map(lambda d: one(d, args), dirs))

    for r in results:
        caught = ",".join(r["caught_by"]) or "-"
        demo = f" demo_exit={r['demo_exit']}" if "demo_exit" in r else ""
        print(f"{r['id']:28s} {r['property']} {r['result']:17s} caught_by={caught}{demo}")
        for p, c in r["checks"].items():
            if c["exit"] not in (0, 1):
                print(f"    {p}: exit {c['exit']} (inconclusive or error)")

            for ln in c["first"][:2]:
                print("    " + ln[:200])

    if not args.only:
        name = f"results_{args.tier}.json" if not args.all_props else f"results_{args.tier}_allprops.json"
        (VERIF / "seeded" / name).write_text(json.dumps(results, indent=1) + "\n")

    return 0 if all(r["result"] == "CAUGHT" for r in results) else 1


if __name__ == "__main__":
    sys.exit(main())
