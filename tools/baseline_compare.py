#!/usr/bin/env python3
"""Compare a pytest junit xml with the stable_pass list of /root/.vp/BASELINE.json.

    python3 tools/baseline_compare.py /tmp/suite.xml
Prints the baseline-stable tests that did not pass in this run (must be empty).
"""
import json
import sys
import xml.etree.ElementTree as ET

base = json.load(open("/root/.vp/BASELINE.json"))
stable = set(base["stable_pass"])
root = ET.parse(sys.argv[1]).getroot()
passed, notpassed = set(), {}
for tc in root.iter("testcase"):
    tid = f"{tc.get('classname')}::{tc.get('name')}"
    bad = [c.tag for c in tc if c.tag in ("failure", "error", "skipped")]
    if bad:
        notpassed[tid] = bad[0]
    else:
        passed.add(tid)

missing = sorted(stable - passed)
print(f"stable_pass={len(stable)} passed_now={len(passed)} stable_not_passing={len(missing)}")
for m in missing[:40]:
    print("  ", m, notpassed.get(m, "absent"))

sys.exit(1 if missing else 0)
