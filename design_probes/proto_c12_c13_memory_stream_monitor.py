import asyncio, random, sys, collections, math
from proto_vloop import VLoop, Deadlock
import anyio
from anyio import create_task_group, CancelScope, create_memory_object_stream, WouldBlock, EndOfStream, BrokenResourceError, ClosedResourceError
from anyio.lowlevel import checkpoint

def run_case(seed, repo_note=""):
    rng=random.Random(seed)
    cap=rng.choice([0,0,1,2,math.inf])
    nS=rng.randint(1,3); nR=rng.randint(1,3)
    viol=[]; log=[]; state={'blocked':{}}
    plans=[]
    for a in range(nS+nR):
        ops=[]
        for _ in range(rng.randint(1,5)):
            ops.append(dict(delay=rng.randint(0,3), nowait=rng.random()<0.3,
                            cancel_after=(rng.randint(0,4) if rng.random()<0.3 else None)))
        plans.append(dict(ops=ops, close_after=rng.random()<0.7, closer_delay=rng.randint(0,3)))
    async def main():
        loop=asyncio.get_running_loop()
        s0,r0=create_memory_object_stream[tuple](cap)
        S=[s0]+[s0.clone() for _ in range(nS-1)]; R=[r0]+[r0.clone() for _ in range(nR-1)]
        openS=set(range(nS)); openR=set(range(nR))
        accepted=[]; uncertain=[]; delivered=[]; per_recv=collections.defaultdict(list)
        blocked=state['blocked']; state['openS']=openS; state['openR']=openR; state['stats']=s0.statistics
        def check_stats(where):
            st=s0.statistics()
            if st.current_buffer_used>cap: viol.append(("overbound",where,st))
            if st.open_send_streams!=len(openS) or st.open_receive_streams!=len(openR): viol.append(("opencount",where,tuple(st),len(openS),len(openR)))
        async def sender(i,plan):
            h=S[i]; n=0
            for op in plan['ops']:
                for _ in range(op['delay']): await checkpoint()
                item=(i,n); n+=1
                closed_self = i not in openS
                if op['nowait']:
                    allR_closed = not openR
                    try:
                        h.send_nowait(item); accepted.append(item)
                        if closed_self: viol.append(("send on closed ok",item))
                    except WouldBlock: pass
                    except ClosedResourceError:
                        if not closed_self: viol.append(("Closed on open handle",item))
                    except BrokenResourceError:
                        if not allR_closed: viol.append(("Broken while receivers open",item))
                else:
                    with CancelScope() as sc:
                        if op['cancel_after'] is not None:
                            def later(c=op['cancel_after'],sc=sc):
                                if c<=0: sc.cancel()
                                else: loop.call_soon(later,c-1)
                            loop.call_soon(later)
                        try:
                            blocked[('send',i)]=item
                            try: await h.send(item)
                            finally: blocked.pop(('send',i),None)
                            accepted.append(item)
                            if closed_self: viol.append(("send on closed ok",item))
                        except ClosedResourceError:
                            if not closed_self: viol.append(("Closed on open handle",item))
                        except BrokenResourceError:
                            if openR: viol.append(("Broken while receivers open",item,len(openR)))
                        except asyncio.CancelledError:
                            uncertain.append(item); raise
                check_stats("send")
            if plan['close_after']:
                for _ in range(plan['closer_delay']): await checkpoint()
                h.close(); openS.discard(i); check_stats("closeS")
        async def receiver(j,plan):
            h=R[j]
            for op in plan['ops']:
                for _ in range(op['delay']): await checkpoint()
                closed_self = j not in openR
                def got(x):
                    delivered.append(x); per_recv[j].append(x)
                    if closed_self: viol.append(("recv on closed ok",x))
                if op['nowait']:
                    try: got(h.receive_nowait())
                    except WouldBlock: pass
                    except ClosedResourceError:
                        if not closed_self: viol.append(("Closed on open handle recv",j))
                    except EndOfStream:
                        if openS: viol.append(("EOS while senders open",j,len(openS)))
                else:
                    with CancelScope() as sc:
                        if op['cancel_after'] is not None:
                            def later(c=op['cancel_after'],sc=sc):
                                if c<=0: sc.cancel()
                                else: loop.call_soon(later,c-1)
                            loop.call_soon(later)
                        try:
                            blocked[('recv',j)]=1
                            try: x=await h.receive()
                            finally: blocked.pop(('recv',j),None)
                            got(x)
                        except ClosedResourceError:
                            if not closed_self: viol.append(("Closed on open handle recv",j))
                        except EndOfStream:
                            if openS: viol.append(("EOS while senders open",j,len(openS)))
                check_stats("recv")
            if plan['close_after']:
                for _ in range(plan['closer_delay']): await checkpoint()
                h.close(); openR.discard(j); check_stats("closeR")
        async with create_task_group() as tg:
            for i in range(nS): tg.start_soon(sender,i,plans[i])
            for j in range(nR): tg.start_soon(receiver,j,plans[nS+j])
        # quiescent accounting
        st=s0.statistics()
        dset=collections.Counter(delivered)
        dup=[x for x,c in dset.items() if c>1]
        if dup: viol.append(("duplicate",dup))
        invented=[x for x in dset if x not in set(accepted)|set(uncertain)]
        if invented: viol.append(("invented",invented))
        if openR:
            lost=[x for x in accepted if x not in dset]
            if len(lost)!=st.current_buffer_used - len([x for x in uncertain if x not in dset and False]):
                # uncertain items may sit in buffer too
                extra=st.current_buffer_used-len(lost)
                if extra<0 or extra>len([x for x in uncertain if x not in dset]): viol.append(("conservation",lost,st.current_buffer_used,uncertain))
        for j,xs in per_recv.items():
            by=collections.defaultdict(list)
            for (i,n) in xs: by[i].append(n)
            for i,ns in by.items():
                if ns!=sorted(ns): viol.append(("order",j,i,ns))
        if st.tasks_waiting_send or st.tasks_waiting_receive: viol.append(("leftover waiters",tuple(st)))
        for h in S+R: h.close()
    try:
        anyio.run(main,backend_options={"loop_factory":VLoop})
    except Deadlock as e:
        st=state['stats']()
        for (kind,_id) in list(state['blocked']):
            if kind=='recv' and not state['openS']: viol.append(("stuck-recv-all-senders-closed",_id,tuple(st)))
            if kind=='recv' and st.current_buffer_used: viol.append(("stuck-recv-with-buffered-item",_id,tuple(st)))
            if kind=='send' and not state['openR']: viol.append(("stuck-send-all-receivers-closed",_id,tuple(st)))
            if kind=='send' and st.current_buffer_used<st.max_buffer_size: viol.append(("stuck-send-with-room",_id,tuple(st)))
        kinds_=set(k for k,_ in state['blocked'])
        if kinds_=={'send','recv'}: viol.append(("stuck-send-and-recv-both-blocked",tuple(st)))
        state['deadlocked']=True
    except BaseException as e:
        viol.append(("crash",repr(e)))
    return viol,(cap,nS,nR,plans)
if __name__=="__main__":
    kinds=collections.Counter(); first={}
    N=int(sys.argv[1])
    for seed in range(N):
        v,case=run_case(seed)
        for x in v:
            kinds[x[0]]+=1; first.setdefault(x[0],(seed,x))
    print("cases",N,"violations by kind",dict(kinds))
    for k,(s,x) in first.items(): print(" first",k,"seed",s,x)
