import sys; sys.path.insert(0,"/verif/.deps")
import icontract, anyio, math
from anyio._backends import _asyncio as A
from anyio.lowlevel import checkpoint
class Over(Exception): pass
evals=[0]
def snap_b(self): return self.borrowed_tokens
def no_overgrant(self, OLD):
    evals[0]+=1
    return self.borrowed_tokens <= max(self.total_tokens, OLD.b)
def wrap(f):
    return icontract.snapshot(snap_b, name="b")(icontract.ensure(no_overgrant, error=Over)(f))
A.CapacityLimiter.release_on_behalf_of = wrap(A.CapacityLimiter.release_on_behalf_of)
A.CapacityLimiter.acquire_on_behalf_of_nowait = wrap(A.CapacityLimiter.acquire_on_behalf_of_nowait)
prop=A.CapacityLimiter.total_tokens
def setter(self, value): prop.fset(self, value)
def snap_b2(self, value): return self.borrowed_tokens
def no_overgrant2(self, value, OLD):
    evals[0]+=1
    return self.borrowed_tokens <= max(self.total_tokens, OLD.b)
wrapped_setter = icontract.snapshot(snap_b2, name="b")(icontract.ensure(no_overgrant2, error=Over)(setter))
A.CapacityLimiter.total_tokens = property(prop.fget, wrapped_setter)
async def main():
    lim=anyio.CapacityLimiter(2)
    await lim.acquire_on_behalf_of("a"); await lim.acquire_on_behalf_of("b")
    lim.total_tokens=0
    async with anyio.create_task_group() as tg:
        tg.start_soon(lim.acquire_on_behalf_of,"w")
        await checkpoint(); await checkpoint()
        try:
            lim.total_tokens=1
        except Over as e:
            print("contract fired:", type(e).__name__, "evals", evals[0])
        tg.cancel_scope.cancel()
anyio.run(main)
