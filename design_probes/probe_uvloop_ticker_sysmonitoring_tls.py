import asyncio, sys, time, threading, random, ssl
import anyio, uvloop
from anyio import create_task_group, CancelScope, sleep_forever, to_thread, from_thread
from anyio.lowlevel import checkpoint

# --- uvloop ticker
async def uv():
    loop=asyncio.get_running_loop()
    ticks=[0]; stop=[False]
    def tick():
        ticks[0]+=1
        if not stop[0]: loop.call_soon(tick)
    loop.call_soon(tick)
    res={}
    async def victim():
        try: await sleep_forever()
        except BaseException as e: res['v']=(type(e).__name__,ticks[0]); raise
    async with create_task_group() as tg:
        tg.start_soon(victim); await checkpoint(); await checkpoint()
        res['cancel_at']=ticks[0]; tg.cancel_scope.cancel()
    stop[0]=True
    return res, type(loop).__name__
print("uvloop", anyio.run(uv, backend_options={"use_uvloop":True}))

# --- sys.monitoring delay injection on selected code objects
from anyio._backends import _asyncio as A
TOOL=sys.monitoring.PROFILER_ID
sys.monitoring.use_tool_id(TOOL,"verif-delay")
hits={}
rng=random.Random(1)
def on_line(code, line):
    k=(code.co_name,line); hits[k]=hits.get(k,0)+1
    if rng.random()<0.3: time.sleep(0.0005)
sys.monitoring.register_callback(TOOL, sys.monitoring.events.LINE, on_line)
for fn in (A.WorkerThread.run, A.WorkerThread._report_result, A.AsyncIOBackend.run_sync_in_worker_thread.__func__):
    sys.monitoring.set_local_events(TOOL, fn.__code__, sys.monitoring.events.LINE)
async def th():
    lim=anyio.CapacityLimiter(2)
    running=[0]; mx=[0]; lk=threading.Lock()
    def work(i):
        with lk:
            running[0]+=1; mx[0]=max(mx[0],running[0])
        time.sleep(0.001)
        with lk: running[0]-=1
        return i*2
    out={}
    async def call(i): out[i]=await to_thread.run_sync(work,i,limiter=lim)
    async with create_task_group() as tg:
        for i in range(12): tg.start_soon(call,i)
    return out==dict((i,i*2) for i in range(12)), mx[0], lim.borrowed_tokens
t=time.time(); print("threads+delay", anyio.run(th), "wall", round(time.time()-t,3))
print("distinct line hooks hit", len(hits), "total", sum(hits.values()))
sys.monitoring.free_tool_id(TOOL)

# --- TLS over memory transport
import trustme
from anyio.streams.tls import TLSStream
from anyio.streams.stapled import StapledObjectStream
from anyio import create_memory_object_stream, EndOfStream, BrokenResourceError
ca=trustme.CA()
sctx=ssl.create_default_context(ssl.Purpose.CLIENT_AUTH); ca.issue_cert("localhost").configure_cert(sctx)
cctx=ssl.create_default_context(ssl.Purpose.SERVER_AUTH); ca.configure_trust(cctx)
for c in (sctx,cctx):
    if hasattr(ssl,"OP_IGNORE_UNEXPECTED_EOF"): c.options &= ~ssl.OP_IGNORE_UNEXPECTED_EOF
async def tls(ver, truncate):
    for c in (sctx,cctx): c.minimum_version=ver; c.maximum_version=ver
    a2b_s,a2b_r=create_memory_object_stream[bytes](math.inf); b2a_s,b2a_r=create_memory_object_stream[bytes](math.inf)
    A_=StapledObjectStream(a2b_s,b2a_r); B_=StapledObjectStream(b2a_s,a2b_r)
    res={}
    async def server():
        s=await TLSStream.wrap(B_,server_side=True,ssl_context=sctx)
        got=b""
        try:
            while True: got+=await s.receive(7)
        except BaseException as e: res['server_end']=type(e).__name__
        res['got']=got; res['ver']=s.extra(anyio.streams.tls.TLSAttribute.tls_version)
    async with create_task_group() as tg:
        tg.start_soon(server)
        c=await TLSStream.wrap(A_,hostname="localhost",ssl_context=cctx)
        await c.send(b"hello world"*3)
        if truncate: await a2b_s.aclose()
        else: 
            with anyio.move_on_after(1): await c.aclose()
    return res
import math
for ver in (ssl.TLSVersion.TLSv1_2, ssl.TLSVersion.TLSv1_3):
    for tr in (False, True):
        print("tls", ver.name, "truncate" if tr else "clean", anyio.run(tls,ver,tr))
