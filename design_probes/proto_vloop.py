import asyncio, selectors, math, time, sys
import anyio
from anyio import create_task_group, move_on_after, sleep, CancelScope, fail_after
from anyio.lowlevel import checkpoint

class Deadlock(BaseException): pass

class VSelector:
    def __init__(self, loop, real):
        self._loop=loop; self._real=real
    def select(self, timeout=None):
        ev = self._real.select(0)
        if ev: return ev
        import math
        live=[h._when for h in self._loop._scheduled if not h._cancelled]
        if timeout is None or (live and min(live)==math.inf and not self._loop._ready):
            raise Deadlock("blocked forever at vt=%r" % self._loop._vt)
        if timeout>0:
            self._loop._vt += timeout
        return []
    def __getattr__(self, n): return getattr(self._real, n)

class VLoop(asyncio.SelectorEventLoop):
    def __init__(self):
        self._vt=0.0; self.cycles=0
        real=selectors.DefaultSelector()
        super().__init__(VSelector(self, real))
    def time(self): return self._vt
    def _run_once(self):
        self.cycles+=1
        super()._run_once()
