import asyncio, random, sys, collections, math
from proto_vloop import VLoop, Deadlock
import anyio
from anyio import create_task_group, CancelScope, Lock, Semaphore, CapacityLimiter, Condition, WouldBlock
from anyio.lowlevel import checkpoint

def run_case(seed):
    rng=random.Random(seed)
    kind=rng.choice(["lock","lock_fast","sem","lim"])
    cap = 1 if kind.startswith("lock") else rng.randint(1,3)
    nT=rng.randint(2,5)
    plans=[[dict(delay=rng.randint(0,3), hold=rng.randint(0,3), nowait=rng.random()<0.2,
                 cancel_after=(rng.randint(0,5) if rng.random()<0.4 else None)) for _ in range(rng.randint(1,3))] for _ in range(nT)]
    viol=[]; state={'waiting':{}, 'holders':set()}
    async def main():
        loop=asyncio.get_running_loop()
        if kind=="lock": res=Lock()
        elif kind=="lock_fast": res=Lock(fast_acquire=True)
        elif kind=="sem": res=Semaphore(cap)
        else: res=CapacityLimiter(cap)
        state['res']=res
        holders=state['holders']; waiting=state['waiting']; order=[]; seq=[0]
        def free():
            if kind.startswith("lock"): return not res.locked()
            if kind=="sem": return res.value>0
            return res.available_tokens>0
        def audit(where):
            if len(holders)>cap: viol.append(("overgrant",where,len(holders),cap))
            if kind=="sem" and res.value!=cap-len(holders)-state.get('inflight',0): pass
            if kind=="lim" and res.borrowed_tokens<len(holders): viol.append(("borrowed<holders",where))
        async def worker(i,plan):
            for op in plan:
                for _ in range(op['delay']): await checkpoint()
                if op['nowait']:
                    had_waiters=res.statistics().tasks_waiting>0 and any(not w['cancelled'] for w in waiting.values())
                    try:
                        res.acquire_nowait()
                    except WouldBlock: continue
                    if had_waiters: viol.append(("barging-nowait",i))
                else:
                    with CancelScope() as sc:
                        if op['cancel_after'] is not None:
                            def later(c=op['cancel_after'],sc=sc,i=i):
                                if c<=0:
                                    sc.cancel()
                                    if i in waiting: waiting[i]['cancelled']=True
                                else: loop.call_soon(later,c-1)
                            loop.call_soon(later)
                        seq[0]+=1; waiting[i]=dict(t=seq[0],cancelled=False)
                        try:
                            await res.acquire()
                        except asyncio.CancelledError:
                            waiting.pop(i,None)
                            if kind.startswith("lock") and res.statistics().owner is not None and res.statistics().owner.id==id(asyncio.current_task()): viol.append(("cancelled-but-owner",i))
                            raise
                        w=waiting.pop(i)
                        # FIFO: no never-cancelled waiter that started earlier may still be waiting, unless resource has capacity >1 and..
                        earlier=[j for j,x in waiting.items() if x['t']<w['t'] and not x['cancelled']]
                        if earlier and not w['cancelled']: viol.append(("overtaken",i,earlier))
                    if sc.cancelled_caught: continue
                holders.add(i); audit("acq")
                if kind.startswith("lock") and res.statistics().owner.id!=id(asyncio.current_task()): viol.append(("not-owner-after-acquire",i))
                with CancelScope(shield=True):
                    for _ in range(op['hold']): await checkpoint()
                holders.discard(i); res.release(); audit("rel")
        async with create_task_group() as tg:
            for i,p in enumerate(plans): tg.start_soon(worker,i,p)
        if kind.startswith("lock"):
            st=res.statistics()
            if st.locked or st.tasks_waiting: viol.append(("final-lock",st))
        elif kind=="sem":
            if res.value!=cap or res.statistics().tasks_waiting: viol.append(("final-sem",res.value,cap))
        else:
            if res.borrowed_tokens or res.statistics().tasks_waiting: viol.append(("final-lim",res.statistics()))
    try:
        anyio.run(main,backend_options={"loop_factory":VLoop})
    except Deadlock as e:
        viol.append(("deadlock",kind,str(e),len(state['holders']),{k:v for k,v in state['waiting'].items()}))
    return viol,(kind,cap,plans)
if __name__=="__main__":
    kinds=collections.Counter(); first={}
    N=int(sys.argv[1])
    for seed in range(N):
        v,case=run_case(seed)
        for x in v:
            kinds[x[0]]+=1; first.setdefault(x[0],(seed,x))
    print("cases",N,"violations by kind",dict(kinds))
    for k,(s,x) in first.items(): print(" first",k,"seed",s,str(x)[:300])
