import asyncio, socket, time, sys
import anyio
from anyio import create_task_group, create_tcp_listener, connect_tcp
from anyio.abc import SocketAttribute

async def bp(reader_side, prime):
    lst=(await create_tcp_listener(local_host="127.0.0.1")).listeners[0]
    port=lst.extra(SocketAttribute.local_port)
    res={}
    async with create_task_group() as tg:
        srv={}
        async def acc(): srv['s']=await lst.accept()
        tg.start_soon(acc)
        c=await connect_tcp("127.0.0.1",port)
        while 's' not in srv: await anyio.sleep(0.001)
        s=srv['s']
        w,r = (c,s) if reader_side=="accepted" else (s,c)
        for st in (c,s):
            raw=st.extra(SocketAttribute.raw_socket)
            raw.setsockopt(socket.SOL_SOCKET,socket.SO_SNDBUF,16384); raw.setsockopt(socket.SOL_SOCKET,socket.SO_RCVBUF,16384)
        sent=[0]; chunk=b"x"*8192
        tot=0
        if prime:
            await w.send(b"p"); d=await r.receive(1); tot+=1
        async def writer():
            for i in range(512):
                await w.send(chunk); sent[0]+=len(chunk)
            await w.send_eof()
        tg.start_soon(writer)
        await anyio.sleep(0.3)
        res['accepted_while_stalled']=sent[0]
        res['userspace_queue']=sum(map(len,r._protocol.read_queue))
        try:
            while True:
                d=await r.receive(5000); tot+=len(d)
        except anyio.EndOfStream: pass
        res['total']=tot
        await c.aclose(); await s.aclose(); await lst.aclose()
    return res
for rs in ("accepted","connected"):
    for prime in (False,True):
        print(rs,"primed" if prime else "unprimed",anyio.run(bp,rs,prime))
