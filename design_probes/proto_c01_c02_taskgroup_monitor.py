import asyncio, random, sys, collections, math
from proto_vloop import VLoop, Deadlock
import anyio
from anyio import create_task_group, CancelScope, TaskHandle, get_cancelled_exc_class
from anyio.lowlevel import checkpoint
class Boom(Exception): pass
def flatten(e):
    if e is None: return []
    if isinstance(e, BaseExceptionGroup):
        out=[]
        for x in e.exceptions: out+=flatten(x)
        return out
    return [e]
def gen_task(rng, depth):
    ops=[]
    for _ in range(rng.randint(1,4)):
        r=rng.random()
        if r<0.35: ops.append(("cp",rng.randint(1,3)))
        elif r<0.45: ops.append(("forever",))
        elif r<0.60 and depth<3: ops.append(("group",[gen_task(rng,depth+1) for _ in range(rng.randint(1,3))], rng.random()<0.3))
        elif r<0.70: ops.append(("raise",))
        elif r<0.80: ops.append(("cancel_own_group",))
        else: ops.append(("cleanup", rng.randint(0,2), rng.random()<0.3))
    return ops
def run_case(seed):
    rng=random.Random(seed)
    root=[("group",[gen_task(rng,1) for _ in range(rng.randint(1,3))], False)]
    agents=[rng.randint(0,8) for _ in range(rng.randint(0,2))]
    viol=[]; st={'n':0}
    async def main():
        loop=asyncio.get_running_loop()
        log=[]; groups=[]
        def newid(): st['n']+=1; return st['n']
        async def run_ops(tid, ops, mygroup):
            for op in ops:
                log.append(("step",tid))
                k=op[0]
                if k=="cp":
                    for _ in range(op[1]): await checkpoint()
                elif k=="forever": await anyio.sleep_forever()
                elif k=="raise": raise Boom(newid())
                elif k=="cancel_own_group":
                    if mygroup is not None: mygroup.cancel_scope.cancel()
                elif k=="cleanup":
                    try:
                        await checkpoint(); await checkpoint()
                    except get_cancelled_exc_class():
                        with CancelScope(shield=True):
                            for _ in range(op[1]): await checkpoint()
                        if op[2]: raise Boom(newid())
                        raise
                elif k=="group":
                    await run_group(tid, op[1], op[2])
        async def run_group(tid, children, body_raises):
            gid=newid(); finals={}; handles={}; ended={}
            async def child(cid, ops, tg):
                try:
                    r=await run_ops(cid, ops, tg); finals[cid]=None; return ("ret",cid)
                except BaseException as e:
                    finals[cid]=e; raise
                finally:
                    ended[cid]=len(log); log.append(("end",cid))
            body_exc=None
            tgref={}
            try:
                async with create_task_group() as tg:
                    tgref['tg']=tg; groups.append(tg)
                    for ops in children:
                        cid=newid(); handles[cid]=tg.start_soon(child,cid,ops,tg)
                    try:
                        await checkpoint()
                        if body_raises: raise Boom(newid())
                    except BaseException as e:
                        body_exc=e; raise
                block_exc=None
            except BaseException as e:
                block_exc=e
            exitpos=len(log); log.append(("group_exit",gid))
            # C01
            for cid,h in handles.items():
                if cid not in ended: viol.append(("child-not-ended-at-exit",gid,cid))
                if h.status in (TaskHandle.Status.PENDING, TaskHandle.Status.CANCELLING): viol.append(("handle-not-final",gid,cid,h.status))
                f=finals.get(cid,"missing")
                if f is None and h.status is not TaskHandle.Status.FINISHED: viol.append(("status-mismatch-ret",cid,h.status))
                if isinstance(f,asyncio.CancelledError) and h.status is not TaskHandle.Status.CANCELLED: viol.append(("status-mismatch-cancel",cid,h.status))
                if isinstance(f,BaseException) and not isinstance(f,asyncio.CancelledError):
                    if h.status is not TaskHandle.Status.FAILED or h.exception is not f: viol.append(("status-mismatch-fail",cid,h.status))
            # C02
            exp=[x for x in flatten(body_exc) if not isinstance(x,asyncio.CancelledError)]
            for cid,f in finals.items():
                exp+=[x for x in flatten(f) if not isinstance(x,asyncio.CancelledError)]
            got=flatten(block_exc)
            gotnc=[x for x in got if not isinstance(x,asyncio.CancelledError)]
            if sorted(map(id,exp))!=sorted(map(id,gotnc)): viol.append(("leaves",gid,[repr(x) for x in exp],[repr(x) for x in gotnc]))
            if isinstance(block_exc,BaseExceptionGroup) and any(isinstance(x,asyncio.CancelledError) for x in got): viol.append(("cancel-leaf-in-group",gid))
            st.setdefault('watch',[]).append((gid,exitpos,set(handles)))
            if block_exc is not None: raise block_exc
        def agent(c,idx):
            if c<=0:
                if groups: groups[idx%len(groups)].cancel_scope.cancel()
            else: loop.call_soon(agent,c-1,idx)
        for n,a in enumerate(agents): loop.call_soon(agent,a,n)
        try:
            await run_ops(0, root, None)
        except BaseException as e:
            if isinstance(e,asyncio.CancelledError): viol.append(("root-cancelled?!",))
        for _ in range(5): await checkpoint()
        for gid,pos,cids in st.get('watch',[]):
            for ev in log[pos:]:
                if ev[0] in("step","end") and ev[1] in cids: viol.append(("step-after-exit",gid,ev))
        left=[t for t in asyncio.all_tasks() if t is not asyncio.current_task() and not t.done()]
        if left: viol.append(("leftover-tasks",len(left)))
    try:
        anyio.run(main,backend_options={"loop_factory":VLoop})
    except Deadlock as e:
        viol.append(("skipped-legit-deadlock",))
    return viol,(root,agents)
if __name__=="__main__":
    kinds=collections.Counter(); first={}
    N=int(sys.argv[1])
    for seed in range(N):
        v,case=run_case(seed)
        for x in v:
            kinds[x[0]]+=1; first.setdefault(x[0],(seed,x))
    print("cases",N,"violations by kind",dict(kinds))
    for k,(s,x) in first.items(): print(" first",k,"seed",s,str(x)[:300])
