import anyio, math, asyncio
from anyio import CapacityLimiter, create_task_group, CancelScope, sleep, TASK_STATUS_IGNORED
from anyio.lowlevel import checkpoint

async def f1():
    lim = CapacityLimiter(2)
    await lim.acquire_on_behalf_of("a"); await lim.acquire_on_behalf_of("b")
    lim.total_tokens = 0
    async with create_task_group() as tg:
        tg.start_soon(lim.acquire_on_behalf_of, "w")
        await checkpoint(); await checkpoint()
        print("F1 before raise", lim.statistics())
        lim.total_tokens = 1
        await checkpoint(); await checkpoint()
        print("F1 after raise: borrowed", lim.borrowed_tokens, "total", lim.total_tokens, "avail", lim.available_tokens)
        tg.cancel_scope.cancel()

async def f2():
    async def child(*, task_status=TASK_STATUS_IGNORED):
        try:
            await sleep(math.inf)
        finally:
            raise ValueError("from cleanup")
    res = None
    try:
        async with create_task_group() as tg:
            with CancelScope() as sc:
                async def canceller():
                    await checkpoint(); await checkpoint(); sc.cancel()
                tg.start_soon(canceller)
                try:
                    await tg.start(child)
                    res="start returned"
                except BaseException as e:
                    res = f"start raised {type(e).__name__}"
                    raise
            print("F2 after scope: caught=", sc.cancelled_caught, res)
    except BaseException as e:
        print("F2 group raised", repr(e), getattr(e,'exceptions',None))
    else:
        print("F2 group raised nothing ->", res)

async def f3():
    from anyio.functools import lru_cache
    calls=[]
    gates={}
    @lru_cache(maxsize=1)
    async def fn(k):
        calls.append(k)
        ev = gates.setdefault(k, anyio.Event())
        await ev.wait()
        if k == 1 and len([c for c in calls if c==1])==1:
            raise ValueError("boom")
        return k*10
    out={}
    async def call(name,k):
        try:
            out[name]=await fn(k)
        except BaseException as e:
            out[name]=repr(e)
    async with create_task_group() as tg:
        tg.start_soon(call,"A",1)
        await checkpoint();await checkpoint()
        tg.start_soon(call,"C",1)   # waits on lock for key 1
        await checkpoint();await checkpoint()
        tg.start_soon(call,"B",2)   # evicts key 1 placeholder
        await checkpoint();await checkpoint()
        gates[1].set()   # A fails
        await checkpoint();await checkpoint();await checkpoint()
        gates[2].set()
        for _ in range(5): await checkpoint()
        gates[1]=anyio.Event(); gates[1].set()
    print("F3", out, fn.cache_info())

async def f3b():
    from anyio.functools import lru_cache, lru_cache_items
    gates={}
    @lru_cache(maxsize=1)
    async def fn(k):
        ev = gates.setdefault(k, anyio.Event())
        await ev.wait()
        return k*10
    async with create_task_group() as tg:
        tg.start_soon(fn,1)
        await checkpoint();await checkpoint()
        tg.start_soon(fn,2)
        await checkpoint();await checkpoint()
        gates[1].set(); gates[2].set()
    ent = lru_cache_items.get()[fn]
    print("F3b retained", dict(ent), fn.cache_info())

async def txt():
    from anyio.streams.text import TextSendStream, TextReceiveStream
    from anyio import create_memory_object_stream
    for enc in ("utf-8","utf-16","utf-32","latin-1","utf-16-le"):
        s,r = create_memory_object_stream[bytes](10)
        ts=TextSendStream(s,encoding=enc); tr=TextReceiveStream(r,encoding=enc)
        await ts.send("a"); await ts.send("b"); await ts.aclose()
        got=[]
        try:
            while True: got.append(await tr.receive())
        except anyio.EndOfStream: pass
        await tr.aclose()
        print("TXT",enc,got)

async def main():
    await f1(); await f2(); await f3(); await f3b(); await txt()
anyio.run(main)
