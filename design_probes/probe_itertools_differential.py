import itertools as I, functools as F, operator, sys
import anyio
from anyio import itertools as AI
from anyio.functools import reduce as areduce

async def agen(xs):
    for x in xs: yield x
def lift(f):
    async def g(*a): return f(*a)
    return g
async def collect(ait, limit=12):
    out=[]
    try:
        async for x in ait:
            out.append(x)
            if len(out)>=limit: break
    except Exception as e:
        return out, type(e).__name__
    return out, None
def scollect(mk, limit=12):
    out=[]
    try:
        for x in mk():
            out.append(x)
            if len(out)>=limit: break
    except Exception as e:
        return out, type(e).__name__
    return out, None
dis=[]
async def cmp(name, amk, smk, norm=lambda x:x):
    for src in ("sync","async"):
        try:
            a=await collect(amk(src))
        except Exception as e:
            a=([],type(e).__name__)
        s=scollect(smk)
        a=([norm(x) for x in a[0]],a[1]); s=([norm(x) for x in s[0]],s[1])
        if a!=s: dis.append((name,src,a,s))
def S(src,xs): return list(xs) if src=="sync" else agen(xs)
async def main():
    seqs=[()]
    for n in range(1,5):
        seqs+=list(I.product(range(2),repeat=n))
    ints=[None,-1,0,1,2,3]
    n=0
    for xs in seqs:
        await cmp(f"accumulate{xs}", lambda s:AI.accumulate(S(s,xs)), lambda:I.accumulate(xs))
        await cmp(f"accumulate-init{xs}", lambda s:AI.accumulate(S(s,xs),lift(operator.mul),initial=3), lambda:I.accumulate(xs,operator.mul,initial=3))
        for k in (-1,0,1,2,3):
            await cmp(f"batched{xs},{k}", lambda s:AI.batched(S(s,xs),k), lambda:I.batched(xs,k))
            await cmp(f"comb{xs},{k}", lambda s:AI.combinations(S(s,xs),k), lambda:I.combinations(xs,k))
            await cmp(f"cwr{xs},{k}", lambda s:AI.combinations_with_replacement(S(s,xs),k), lambda:I.combinations_with_replacement(xs,k))
            await cmp(f"perm{xs},{k}", lambda s:AI.permutations(S(s,xs),k), lambda:I.permutations(xs,k))
            await cmp(f"repeat{k}", lambda s:AI.repeat('e',k), lambda:I.repeat('e',k))
            await cmp(f"product{xs},rep{k}", lambda s:AI.product(S(s,xs),repeat=k), lambda:I.product(xs,repeat=k))
        await cmp(f"perm{xs},None", lambda s:AI.permutations(S(s,xs)), lambda:I.permutations(xs))
        await cmp(f"chain{xs}", lambda s:AI.chain(S(s,xs),S(s,xs[::-1])), lambda:I.chain(xs,xs[::-1]))
        await cmp(f"chainfi{xs}", lambda s:AI.chain.from_iterable(S(s,[list(xs),[9]])), lambda:I.chain.from_iterable([list(xs),[9]]))
        for sel in seqs[:8]:
            await cmp(f"compress{xs},{sel}", lambda s:AI.compress(S(s,xs),S(s,sel)), lambda:I.compress(xs,sel))
            await cmp(f"ziplongest{xs},{sel}", lambda s:AI.zip_longest(S(s,xs),S(s,sel),fillvalue='f'), lambda:I.zip_longest(xs,sel,fillvalue='f'))
            await cmp(f"product2{xs},{sel}", lambda s:AI.product(S(s,xs),S(s,sel)), lambda:I.product(xs,sel))
        await cmp(f"cycle{xs}", lambda s:AI.cycle(S(s,xs)), lambda:I.cycle(xs))
        await cmp(f"dropwhile{xs}", lambda s:AI.dropwhile(lift(bool),S(s,xs)), lambda:I.dropwhile(bool,xs))
        await cmp(f"takewhile{xs}", lambda s:AI.takewhile(lift(bool),S(s,xs)), lambda:I.takewhile(bool,xs))
        await cmp(f"filterfalse{xs}", lambda s:AI.filterfalse(lift(bool),S(s,xs)), lambda:I.filterfalse(bool,xs))
        await cmp(f"groupby{xs}", lambda s:AI.groupby(S(s,xs)), lambda:((k,list(g)) for k,g in I.groupby(xs)))
        await cmp(f"groupbykey{xs}", lambda s:AI.groupby(S(s,xs),lift(lambda v:v//2)), lambda:((k,list(g)) for k,g in I.groupby(xs,lambda v:v//2)))
        await cmp(f"pairwise{xs}", lambda s:AI.pairwise(S(s,xs)), lambda:I.pairwise(xs))
        await cmp(f"starmap{xs}", lambda s:AI.starmap(lift(lambda a,b:a-b),S(s,[(x,1) for x in xs])), lambda:I.starmap(lambda a,b:a-b,[(x,1) for x in xs]))
        for a in ints:
            await cmp(f"islice{xs},{a}", lambda s:AI.islice(S(s,xs),a), lambda:I.islice(xs,a))
            for b in ints:
                await cmp(f"islice{xs},{a},{b}", lambda s:AI.islice(S(s,xs),a,b), lambda:I.islice(xs,a,b))
                for c in ints:
                    await cmp(f"islice{xs},{a},{b},{c}", lambda s:AI.islice(S(s,xs),a,b,c), lambda:I.islice(xs,a,b,c))
        # reduce
        for init in (None, 5):
            for src in ("sync","async"):
                try:
                    a=(await (areduce(lift(operator.sub),S(src,xs),init) if init is not None else areduce(lift(operator.sub),S(src,xs))),None)
                except Exception as e: a=(None,type(e).__name__)
                try:
                    s=((F.reduce(operator.sub,xs,init) if init is not None else F.reduce(operator.sub,xs)),None)
                except Exception as e: s=(None,type(e).__name__)
                if a!=s: dis.append(("reduce",xs,init,src,a,s))
    for st,sp in ((0,1),(3,2),(1,-1),(2,0)):
        await cmp(f"count{st},{sp}", lambda s:AI.count(st,sp), lambda:I.count(st,sp))
    print("disagreements:", len(dis))
    seen=set()
    for d in dis:
        k=d[0].split('(')[0].split('-')[0]
        if k not in seen or len(seen)<0:
            seen.add(k); print(d)
anyio.run(main)
