import asyncio, math
from proto_vloop import VLoop, Deadlock
import anyio
from anyio import create_task_group, CancelScope, sleep, Event, sleep_forever, move_on_after, fail_after, create_memory_object_stream, Lock, Condition
from anyio.lowlevel import checkpoint

async def native(cancel_it):
    out=[]
    t=asyncio.current_task()
    # P1: asyncio.timeout around an absorbed anyio cancellation, then expiry later
    try:
        async with asyncio.timeout(10):
            with CancelScope() as s:
                if cancel_it: s.cancel()
                try: await sleep(1)
                except asyncio.CancelledError: raise
            out.append(("after_scope_cancelling", t.cancelling()))
            await asyncio.sleep(20)
        out.append("no-timeout?!")
    except TimeoutError: out.append("TimeoutError")
    except asyncio.CancelledError: out.append("CancelledError-leak")
    # P2: asyncio.TaskGroup after
    with CancelScope() as s:
        if cancel_it: s.cancel()
        await checkpoint() if not cancel_it else None
        try:
            await sleep(1)
        except asyncio.CancelledError: raise
    async def bad(): raise ValueError("x")
    try:
        async with asyncio.TaskGroup() as g:
            g.create_task(bad()); await asyncio.sleep(5)
        out.append("tg-no-error?!")
    except* ValueError: out.append("EG[ValueError]")
    except* asyncio.CancelledError: out.append("EG-cancel-leak")
    # P3: native timeout firing while inside nested anyio scopes incl. shield
    try:
        async with asyncio.timeout(3):
            with CancelScope() as s:
                if cancel_it:
                    with CancelScope(shield=True):
                        s.cancel(); await sleep(1)   # shielded work 1s, then leaves shield -> cancelled by s
                await sleep(10)
            await asyncio.sleep(10)
        out.append("no-timeout?!")
    except TimeoutError: out.append("TimeoutError")
    out.append(("end_cancelling", t.cancelling(), anyio.current_time()))
    return out
for c in (False, True):
    print("native", c, anyio.run(native,c,backend_options={"loop_factory":VLoop}))

async def samecycle(order):
    loop=asyncio.get_running_loop(); res={}
    ev=Event(); s,r=create_memory_object_stream[int](0)
    async def waiter():
        with CancelScope() as sc:
            res['sc']=sc
            try:
                await ev.wait(); res['ev']="returned"
                try: await checkpoint(); res['next']="ok?!"
                except asyncio.CancelledError: res['next']="cancelled"; raise
            except asyncio.CancelledError: res.setdefault('ev',"cancelled"); raise
    async def recv():
        with CancelScope() as sc:
            res['rc']=sc
            try: res['item']=await r.receive()
            except asyncio.CancelledError: res['item']="cancelled"; raise
    async with create_task_group() as tg:
        tg.start_soon(waiter); tg.start_soon(recv)
        await checkpoint(); await checkpoint()
        if order=="set-then-cancel":
            ev.set(); res['sc'].cancel()
            try: s.send_nowait(7); res['send']="ok"
            except anyio.WouldBlock: res['send']="wouldblock"
            res['rc'].cancel()
        else:
            res['sc'].cancel(); ev.set()
            res['rc'].cancel()
            try: s.send_nowait(7); res['send']="ok"
            except anyio.WouldBlock: res['send']="wouldblock"
        for _ in range(4): await checkpoint()
        res['stats']=tuple(s.statistics())
    s.close(); r.close()
    return {k:v for k,v in res.items() if k not in('sc','rc')}
for o in ("set-then-cancel","cancel-then-set"):
    print(o, anyio.run(samecycle,o,backend_options={"loop_factory":VLoop}))

async def ties():
    out=[]
    with move_on_after(5) as sc:
        await sleep(5)
        out.append("slept full")
    out.append(("caught",sc.cancelled_caught, anyio.current_time()))
    with move_on_after(5) as outer:
        with move_on_after(5) as inner:
            await sleep(9)
        out.append(("inner",inner.cancelled_caught))
        try: await checkpoint(); out.append("cp ok")
        except asyncio.CancelledError: out.append("cp cancelled"); raise
    out.append(("outer",outer.cancelled_caught, anyio.current_time()))
    return out
print("ties", anyio.run(ties,backend_options={"loop_factory":VLoop}))
