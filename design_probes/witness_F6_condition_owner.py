import anyio
from anyio import Condition, create_task_group, Lock
from anyio.lowlevel import checkpoint
async def main():
    cond=Condition()
    out={}
    async def waiter():
        async with cond:
            await cond.wait(); out['waiter']="woken"
    async with create_task_group() as tg:
        tg.start_soon(waiter)
        await checkpoint(); await checkpoint(); await checkpoint()
        # this task acquires and releases, then notifies WITHOUT holding the lock
        await cond.acquire(); cond.release()
        print("locked now?", cond.locked())
        for name,fn in (("notify",cond.notify),("notify_all",cond.notify_all)):
            try: fn(); print(name,"without lock: NO ERROR")
            except RuntimeError as e: print(name,"without lock: RuntimeError",e)
        try:
            await cond.wait(); print("wait without lock: returned?!")
        except RuntimeError as e: print("wait without lock: RuntimeError:",e, "| stale waiters:", cond.statistics().tasks_waiting)
        for _ in range(3): await checkpoint()
        print(out, cond.statistics().tasks_waiting)
        tg.cancel_scope.cancel()
    # a task that never held it
    cond2=Condition()
    try: cond2.notify(); print("never-held notify: NO ERROR")
    except RuntimeError as e: print("never-held notify: RuntimeError")
anyio.run(main)
