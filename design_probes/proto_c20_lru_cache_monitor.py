import asyncio, random, sys, collections
from proto_vloop import VLoop, Deadlock
import anyio
from anyio import create_task_group, CancelScope, Event
from anyio.lowlevel import checkpoint
from anyio.functools import lru_cache, lru_cache_items

class Boom(Exception): pass

def run_case(seed):
    rng=random.Random(seed)
    maxsize=rng.choice([1,1,2,3,None])
    nkeys=rng.choice([2,3,4]); ncalls=rng.randint(3,9)
    plan=[]
    for i in range(ncalls):
        plan.append(dict(key=rng.randrange(nkeys), delay=rng.randint(0,4), work=rng.randint(0,3),
                         fail=rng.random()<0.2, cancel_after=(rng.randint(0,5) if rng.random()<0.2 else None)))
    viol=[]
    async def main():
        running=collections.Counter(); execs=collections.defaultdict(list)  # key -> list of (n, status)
        failplan={}
        @lru_cache(maxsize=maxsize)
        async def fn(k):
            running[k]+=1
            if running[k]>1: viol.append(("overlap",k))
            n=len(execs[k]); execs[k].append([n,"running"])
            try:
                w,fail=failplan.pop(k,(1,False))
                for _ in range(w): await checkpoint()
                if fail:
                    execs[k][n][1]="failed"; raise Boom(k,n)
                execs[k][n][1]="ok"
                return (k,n)
            except asyncio.CancelledError:
                execs[k][n][1]="cancelled"; raise
            finally:
                running[k]-=1
        async def caller(i,p):
            for _ in range(p['delay']): await checkpoint()
            latest_ok_before=max([n for n,st in execs[p['key']] if st=="ok"],default=-1)
            failplan.setdefault(p['key'],(p['work'],p['fail']))
            with CancelScope() as sc:
                if p['cancel_after'] is not None:
                    loop=asyncio.get_running_loop()
                    def later(c=p['cancel_after']):
                        if c<=0: sc.cancel()
                        else: loop.call_soon(later,c-1)
                    loop.call_soon(later)
                try:
                    v=await fn(p['key'])
                except Boom as e:
                    if e.args[0]!=p['key']: viol.append(("foreign-boom",i,e.args))
                    return
                except asyncio.CancelledError:
                    raise
                except BaseException as e:
                    viol.append(("internal-error",i,repr(e))); return
                if v[0]!=p['key']: viol.append(("wrong-key",i,v))
                elif v[1]<latest_ok_before: viol.append(("stale",i,v,latest_ok_before))
        async with create_task_group() as tg:
            for i,p in enumerate(plan): tg.start_soon(caller,i,p)
        ent=lru_cache_items.get().get(fn,{})
        retained=sum(1 for e in ent.values() if e[1] is None)
        if maxsize is not None and retained>maxsize: viol.append(("over-retention",retained,maxsize))
        info=fn.cache_info()
        if info.currsize!=retained: viol.append(("currsize-drift",info.currsize,retained))
    try:
        anyio.run(main,backend_options={"loop_factory":VLoop})
    except Deadlock as e:
        viol.append(("deadlock",str(e)))
    return viol,(maxsize,plan)
if __name__!="__main__": sys.argv=[0,"0"]
kinds=collections.Counter(); first={}
N=int(sys.argv[1])
for seed in range(N):
    v,case=run_case(seed)
    for x in v:
        kinds[x[0]]+=1; first.setdefault(x[0],(seed,x))
print("cases",N,"violations by kind",dict(kinds))
for k,(s,x) in first.items(): print(" first",k,"seed",s,x)
