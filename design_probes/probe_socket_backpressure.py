import asyncio, socket, time, sys, tempfile, os
import anyio
from anyio import create_task_group, create_tcp_listener, connect_tcp, create_unix_listener, connect_unix, move_on_after
from anyio.abc import SocketAttribute

async def bp(kind):
    if kind=="tcp":
        lst=await create_tcp_listener(local_host="127.0.0.1")
        port=lst.extra(SocketAttribute.local_port)
        conn=lambda: connect_tcp("127.0.0.1",port)
    else:
        d=tempfile.mkdtemp(); p=os.path.join(d,"s")
        lst=await create_unix_listener(p); conn=lambda: connect_unix(p)
    res={}
    async with create_task_group() as tg:
        srv={}
        async def acc():
            srv["s"]=await (lst.listeners[0] if hasattr(lst,"listeners") else lst).accept()
        tg.start_soon(acc)
        c=await conn()
        while 's' not in srv: await anyio.sleep(0.001)
        s=srv['s']
        for st in (c,s):
            raw=st.extra(SocketAttribute.raw_socket)
            raw.setsockopt(socket.SOL_SOCKET,socket.SO_SNDBUF,16384); raw.setsockopt(socket.SOL_SOCKET,socket.SO_RCVBUF,16384)
        res['bufs']=(c.extra(SocketAttribute.raw_socket).getsockopt(socket.SOL_SOCKET,socket.SO_SNDBUF), s.extra(SocketAttribute.raw_socket).getsockopt(socket.SOL_SOCKET,socket.SO_RCVBUF))
        sent=[0]
        chunk=b"x"*8192
        async def writer():
            for i in range(1024):   # 8 MiB
                await c.send(chunk); sent[0]+=len(chunk)
            await c.send_eof()
        tg.start_soon(writer)
        await anyio.sleep(0.3)     # reader stalled
        res['accepted_while_stalled']=sent[0]
        tot=0
        try:
            while True:
                d=await s.receive(5000); assert 0<len(d)<=5000; tot+=len(d)
        except anyio.EndOfStream: pass
        res['total']=tot
        await c.aclose(); await s.aclose(); await lst.aclose()
    return res
for opts,name in (({}, "stock"),({"use_uvloop":True},"uvloop")):
    for kind in ("tcp","unix"):
        t=time.time(); print(name,kind,anyio.run(bp,kind,backend_options=opts), round(time.time()-t,2))
