import asyncio, math, sys
from proto_vloop import VLoop, Deadlock
import anyio
from anyio import create_task_group, CancelScope, sleep, Event, sleep_forever
from anyio.lowlevel import checkpoint, cancel_shielded_checkpoint

def eager():
    l=VLoop(); l.set_task_factory(asyncio.eager_task_factory); return l

async def scenario(kind):
    loop=asyncio.get_running_loop()
    res={}
    async def victim(name, pre_shield_cycles=0):
        try:
            if pre_shield_cycles:
                with CancelScope(shield=True):
                    for _ in range(pre_shield_cycles): await checkpoint()
            res[name+"_blockstart"]=loop.cycles
            await sleep_forever()
        except BaseException as e:
            res[name]=(type(e).__name__, loop.cycles)
            raise
    async with create_task_group() as tg:
        if kind=="blocked":
            tg.start_soon(victim,"v"); await checkpoint(); await checkpoint()
            res["cancel_at"]=loop.cycles; tg.cancel_scope.cancel()
        elif kind=="newborn":
            tg.start_soon(victim,"v"); res["cancel_at"]=loop.cycles; tg.cancel_scope.cancel()
        elif kind=="shielded":
            tg.start_soon(victim,"v",4); await checkpoint()
            res["cancel_at"]=loop.cycles; tg.cancel_scope.cancel()
        elif kind=="external":
            tg.start_soon(victim,"v"); await checkpoint(); await checkpoint()
            def cb(): res["cancel_at"]=loop.cycles; tg.cancel_scope.cancel()
            loop.call_soon(cb)
            await sleep(100)
    return res

for lf,name in ((VLoop,"stock"),(eager,"eager")):
    for kind in ("blocked","newborn","shielded","external"):
        r=anyio.run(scenario,kind,backend_options={"loop_factory":lf})
        print(name,kind,r)

# cancelling() accounting + handle introspection
async def acct():
    loop=asyncio.get_running_loop()
    t=asyncio.current_task()
    print("cancelling at start", t.cancelling())
    with CancelScope() as outer:
        with CancelScope() as inner:
            outer.cancel()
            for i in range(3):
                try: await sleep(1)
                except asyncio.CancelledError: pass   # (bad practice, only to count deliveries)
            print(" inside: cancelling", t.cancelling())
        print(" after inner (still in cancelled outer): cancelling", t.cancelling())
        try: await checkpoint()
        except asyncio.CancelledError: raise
    print("after outer: cancelling", t.cancelling(), "caught", outer.cancelled_caught)
    with anyio.move_on_after(5) as s:
        pass
    print("scheduled after exit:", [ (h._when,h._cancelled, getattr(h._callback,'__self__',None).__class__.__name__) for h in loop._scheduled])
    with anyio.move_on_after(5) as s:
        print("scheduled inside:", [ (h._when,h._cancelled, getattr(h._callback,'__self__',None).__class__.__name__) for h in loop._scheduled])
    await sleep(20)
    print("ready:", list(loop._ready), "cycles", loop.cycles)
anyio.run(acct,backend_options={"loop_factory":VLoop})
