"""F3 (C20): lru_cache with a finite maxsize evicts entries that callers still reference
(open known finding): internal KeyError reaches a caller; both results retained (2 > maxsize)."""
import anyio
from anyio import create_task_group
from anyio.lowlevel import checkpoint

async def f3():
    from anyio.functools import lru_cache
    calls=[]
    gates={}
    @lru_cache(maxsize=1)
    async def fn(k):
        calls.append(k)
        ev = gates.setdefault(k, anyio.Event())
        await ev.wait()
        if k == 1 and len([c for c in calls if c==1])==1:
            raise ValueError("boom")
        return k*10
    out={}
    async def call(name,k):
        try:
            out[name]=await fn(k)
        except BaseException as e:
            out[name]=repr(e)
    async with create_task_group() as tg:
        tg.start_soon(call,"A",1)
        await checkpoint();await checkpoint()
        tg.start_soon(call,"C",1)   # waits on lock for key 1
        await checkpoint();await checkpoint()
        tg.start_soon(call,"B",2)   # evicts key 1 placeholder
        await checkpoint();await checkpoint()
        gates[1].set()   # A fails
        await checkpoint();await checkpoint();await checkpoint()
        gates[2].set()
        for _ in range(5): await checkpoint()
        gates[1]=anyio.Event(); gates[1].set()
    print("F3", out, fn.cache_info())

async def f3b():
    from anyio.functools import lru_cache, lru_cache_items
    gates={}
    @lru_cache(maxsize=1)
    async def fn(k):
        ev = gates.setdefault(k, anyio.Event())
        await ev.wait()
        return k*10
    async with create_task_group() as tg:
        tg.start_soon(fn,1)
        await checkpoint();await checkpoint()
        tg.start_soon(fn,2)
        await checkpoint();await checkpoint()
        gates[1].set(); gates[2].set()
    ent = lru_cache_items.get()[fn]
    print("F3b retained", dict(ent), fn.cache_info())


async def main():
    await f3()
    await f3b()


import io, sys, contextlib
buf = io.StringIO()
with contextlib.redirect_stdout(buf):
    anyio.run(main)
print(buf.getvalue(), end="")
sys.exit(1 if "KeyError" in buf.getvalue() else 0)  # exit 1 = defect observed
