"""F26 (C19): anyio.itertools.groupby splits a run of keys that are identical but not equal
to themselves (NaN); itertools.groupby compares by identity first (PyObject_RichCompareBool).

Exit 1 if the two disagree.

    PYTHONPATH=/repo/src /venv/bin/python witnesses/F26_groupby_identical_unequal_keys.py
"""
import itertools
import sys

import anyio
from anyio import itertools as aitertools

nan = float("nan")
data = [nan, nan, 1, 1]


async def main() -> int:
    got = [(k, list(g)) async for k, g in aitertools.groupby(data)]
    want = [(k, list(g)) for k, g in itertools.groupby(data)]
    print("anyio :", got)
    print("stdlib:", want)
    return 0 if len(got) == len(want) else 1


sys.exit(anyio.run(main))
