"""
F23 (C14), open known finding: the same for an ABANDONED thread (abandon_on_cancel=True) whose scope has been left.
Exit 1 = defect present.

    PYTHONPATH=/repo/src /venv/bin/python witnesses/F23_callback_of_abandoned_thread_spins.py

(written by an independent reviewer; its own description follows)
C03 (variant of the from_thread.run finding): an abandoned worker thread
(to_thread.run_sync(..., abandon_on_cancel=True)) whose host scope has been cancelled AND
exited calls from_thread.run(coro).  The new task is attached to to_thread's private scope
object, which has already exited but still links (stale _parent_scope) to the cancelled
scope.  Nothing ever delivers a cancellation to it, yet checkpoint_if_cancelled() sees a
cancelled scope and spins in `await sleep(0)` without bound; blocking operations
(anyio.sleep) are not interrupted at all.

Expected (C03): the operation is interrupted with CancelledError within a few loop cycles
(upstream's test_cancelscope_propagation_when_abandoned shows such tasks are meant to be
cancellable by that scope), or at the very least does not spin forever.
Observed: sleep completes normally; checkpoint_if_cancelled never returns nor raises.
"""
import asyncio
import sys
import threading
import time

import anyio
from anyio import CancelScope, from_thread, lowlevel, to_thread

violations = []


async def main() -> None:
    res = {}
    thread_done = threading.Event()
    go = threading.Event()

    async def probe_sleep():
        await anyio.sleep(0.7)

    async def probe_cic():
        res["task"] = asyncio.current_task()
        await lowlevel.checkpoint_if_cancelled()

    def worker():
        go.wait()  # host has been cancelled and has left the scope by now
        t0 = time.monotonic()
        try:
            from_thread.run(probe_sleep)
            res["sleep"] = "completed normally"
        except BaseException as e:
            res["sleep"] = f"raised {type(e).__name__}"
        res["sleep_elapsed"] = round(time.monotonic() - t0, 2)
        try:
            from_thread.run(probe_cic)
            res["cic"] = "returned"
        except BaseException as e:
            res["cic"] = f"raised {type(e).__name__}"
        thread_done.set()

    with CancelScope() as scope:
        async with anyio.create_task_group() as tg:
            tg.start_soon(lambda: to_thread.run_sync(worker, abandon_on_cancel=True))
            await anyio.sleep(0.05)
            scope.cancel()
    print("host scope exited, cancelled_caught =", scope.cancelled_caught)
    go.set()

    # Give the thread 2.5 s in total
    t0 = time.monotonic()
    while not thread_done.is_set() and time.monotonic() - t0 < 2.5:
        await anyio.sleep(0.01)

    spinning = not thread_done.is_set()
    if spinning:
        res["task"].cancel()  # native cancel, to end the demo
        while not thread_done.is_set():
            await anyio.sleep(0.01)

    res.pop("task", None)
    print(res, "still spinning after 2.5s:", spinning)
    if res["sleep"] == "completed normally":
        violations.append("anyio.sleep() in task attached to cancelled scope not interrupted")
    if spinning:
        violations.append("checkpoint_if_cancelled() spun >1.5 s without cancellation landing")


anyio.run(main)
for v in violations:
    print("VIOLATION", v)
sys.exit(1 if violations else 0)
