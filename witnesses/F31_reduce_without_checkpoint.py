"""F31 (C08), open known finding: anyio.functools.reduce() with a reducer that never suspends
is not a checkpoint once the reducer has been called: no yield, and in a cancelled scope it
calls the reducer and returns a value.

Exit 1 if that is observed.

    PYTHONPATH=/repo/src /venv/bin/python witnesses/F31_reduce_without_checkpoint.py
"""
import sys
import asyncio, anyio
from anyio.functools import reduce
async def add(a,b): return a+b
async def main():
    loop=asyncio.get_running_loop()
    for args in (([1,2,3],), ([1],10), ([],5), ([7],)):
        m=[]; loop.call_soon(m.append,1)
        v=await reduce(add,*args)
        print(args, v, "yielded" if m else "NO YIELD")
        if not m: bad.append(args)
        with anyio.CancelScope() as s:
            s.cancel()
            v=await reduce(add,*args)
            print("   in cancelled scope: returned", v)
        print("   cancelled_caught", s.cancelled_caught)
bad = []
anyio.run(main)
sys.exit(1 if bad else 0)
