"""F14 (C15, open): a portal call that passes the "is the portal running" check while the
portal is shutting down can hang forever: run_sync_from_thread() schedules its wrapper with
call_soon_threadsafe() and then blocks in Future.result() without a timeout; if the event
loop finishes before it gets to run that callback, nobody ever resolves the future.
The window is narrow, so this witness simply repeats the race (statistical reproduction)."""
import sys
import threading

sys.path.insert(0, "/verif")
from anyio._backends import _asyncio as A  # noqa: E402
from anyio.from_thread import BlockingPortal, start_blocking_portal  # noqa: E402

from vf import delay  # noqa: E402

# preemption amplification (random sub-millisecond pauses between the lines of the functions
# involved -- nothing the OS scheduler could not do by itself)
delay.install([A.AsyncIOBackend.run_sync_from_thread, BlockingPortal.start_task_soon,
               BlockingPortal._spawn_task_from_thread, start_blocking_portal], seed=1, prob=0.3)

hung = 0
ROUNDS = int(sys.argv[1]) if len(sys.argv) > 1 else 400
for i in range(ROUNDS):
    outcomes = []

    def caller(portal):
        for _ in range(200):
            try:
                portal.call(int)
                outcomes.append("ok")
            except RuntimeError:
                outcomes.append("refused")       # fine: portal no longer running
                return
            except BaseException as e:
                outcomes.append(repr(e))
                return

    with start_blocking_portal() as portal:
        t = threading.Thread(target=caller, args=(portal,), daemon=True)
        t.start()
    t.join(1.0)
    if t.is_alive():
        hung += 1
        print(f"round {i}: caller thread still blocked 1 s after the portal exited "
              f"({len(outcomes)} calls answered before)")
        if hung >= 2:
            break

print("hung callers:", hung, "in", i + 1, "rounds")
import os  # noqa: E402

os._exit(1 if hung else 0)  # (exit 1 = defect observed; the hung caller threads cannot be joined)
