"""F10 (C03): a task spawned into an already cancelled task group is not cancelled while
the group's host sits in a shielded scope: the scope's cancellation delivery loop stopped
when no eligible task was left and adding a task does not restart it.  The child stays
blocked in a cancelled, unshielded scope until some unrelated scope exit restarts delivery."""
import anyio
from anyio import CancelScope, create_task_group

log = []


async def child():
    try:
        await anyio.sleep_forever()
    except BaseException as e:
        log.append(("child interrupted at", round(anyio.current_time() - t0, 2), type(e).__name__))
        raise


async def main():
    global t0
    t0 = anyio.current_time()
    async with create_task_group() as tg:
        tg.cancel_scope.cancel()
        with CancelScope(shield=True):
            await anyio.sleep(0.05)          # delivery loop winds down: nobody to cancel
            tg.start_soon(child)             # new member of a cancelled group
            await anyio.sleep(1.0)           # child must be cancelled promptly, not after 1 s
    print(log)
    assert log and log[0][1] < 0.5, "child stayed blocked in a cancelled scope"


anyio.run(main)
