"""C20: a call made while the caller's cancel scope is ALREADY cancelled / its deadline has
already expired (AnyIO-level only; the wrapped function never even starts) leaves an
uncounted placeholder in the cache.  When that placeholder later reaches the LRU end it
is "evicted" instead of a real result, so the cache permanently retains more than maxsize
results - one more for every such call.

Clause: "At most maxsize results are retained with least-recently-used eviction".
(Variant of the known over-retention family, but with a different trigger: no failing
wrapped call, no concurrency, no eviction of an in-flight entry.)
"""
import sys
import anyio
from anyio import move_on_after
from anyio.functools import lru_cache, lru_cache_items, initial_missing

MAXSIZE = 2
runs = []


@lru_cache(maxsize=MAXSIZE)
async def f(x):
    runs.append(x)
    await anyio.sleep(0)
    return x * 10


def retained():
    entry = lru_cache_items.get()[f]
    return [k[0] for k, v in entry.items() if v[0] is not initial_missing], len(entry)


async def main() -> int:
    await f(1)
    await f(2)
    n_orphans = 3
    for k in range(100, 100 + n_orphans):
        with move_on_after(0):          # deadline already expired: f() never runs
            await f(k)
    assert not any(k >= 100 for k in runs), runs
    print("after 2 results + 3 pre-cancelled calls :", retained(), f.cache_info())
    for k in range(3, 12):
        await f(k)
    res, size = retained()
    print("after 9 more sequential distinct calls  :", (res, size), f.cache_info())
    if len(res) > MAXSIZE:
        print(f"VIOLATION: {len(res)} results retained, maxsize={MAXSIZE} "
              f"(currsize reports {f.cache_info().currsize})")
        # they really are served from the cache:
        before = len(runs)
        for k in res:
            await f(k)
        print(f"  all {len(res)} retained keys served without recomputation:", len(runs) == before)
        return 1
    return 0


sys.exit(anyio.run(main))
