"""C18: "on a locally closed stream send raises ClosedResourceError"

A TCP SocketStream that was closed with aclose() while the caller's scope is cancelled
(e.g. ``async with stream:`` being left because a deadline expired in a send()) is locally
closed (stream._closed is True, receive() raises ClosedResourceError), but

  (A) a later send() on it blocks for as long as the peer does not read, instead of raising
      ClosedResourceError, and
  (B) a send() of another task that was blocked on the full write buffer when the stream was
      closed is never woken up (it neither fails nor returns), and
  (C) a receive() of a third task that was pending at that moment stays blocked as well
      ("receive raises it as soon as no already-received data is left, never blocking").

Only AnyIO level means are used: a deadline (move_on_after) and ``async with stream``.
Exit status 1 = property violated, 0 = holds.
"""
import asyncio
import sys

import anyio
from anyio import (
    ClosedResourceError,
    connect_tcp,
    create_task_group,
    create_tcp_listener,
    move_on_after,
)
from anyio.abc import SocketAttribute


def eager_loop_factory():
    loop = asyncio.new_event_loop()
    loop.set_task_factory(asyncio.eager_task_factory)
    return loop


CONFIGS = {
    "stock": {},
    "eager_task_factory": {"loop_factory": eager_loop_factory},
    "uvloop": {"use_uvloop": True},
}
BIG = b"x" * 30_000_000  # several socket buffers; the peer never reads


async def tcp_pair():
    listener = await create_tcp_listener(local_host="127.0.0.1")
    port = listener.extra(SocketAttribute.local_port)
    accepted = []
    async with create_task_group() as tg:

        async def accept():
            accepted.append(await listener.listeners[0].accept())

        tg.start_soon(accept)
        client = await connect_tcp("127.0.0.1", port)

    await listener.aclose()
    return client, accepted[0]


async def probe(stream, what):
    """Call send()/receive() on the closed stream; report what happens within 1 second."""
    outcome = "BLOCKED (no result within 1 s)"
    with move_on_after(1):
        try:
            if what == "send":
                await stream.send(b"more")
            else:
                await stream.receive()
            outcome = "returned normally"
        except ClosedResourceError:
            outcome = "ClosedResourceError"
        except Exception as exc:
            outcome = type(exc).__name__

    return outcome


async def scenario_a():
    """send() times out, the stream is closed by 'async with' in the cancelled scope."""
    stream, peer = await tcp_pair()
    with move_on_after(0.1) as scope:
        async with stream:  # __aexit__ -> aclose() runs in the (cancelled) scope
            await stream.send(BIG)

    assert scope.cancelled_caught
    result = {
        "receive": await probe(stream, "receive"),
        "send": await probe(stream, "send"),
    }
    await peer.aclose()
    return result


async def scenario_b():
    """Task 1 is blocked in send(); task 2 closes the stream from a cancelled scope."""
    stream, peer = await tcp_pair()
    outcome = ["BLOCKED (still pending 1 s after the close)"]
    async with create_task_group() as tg:

        async def sender():
            try:
                await stream.send(BIG)
                outcome[0] = "returned normally"
            except ClosedResourceError:
                outcome[0] = "ClosedResourceError"
            except Exception as exc:
                outcome[0] = type(exc).__name__

        tg.start_soon(sender)
        await anyio.wait_all_tasks_blocked()
        with move_on_after(0) as scope:  # an already expired deadline
            await stream.aclose()

        await anyio.sleep(1)
        tg.cancel_scope.cancel()

    await peer.aclose()
    return {"blocked send": outcome[0]}


async def scenario_c():
    """Like B, plus a third task that is blocked in receive() when the stream is closed."""
    stream, peer = await tcp_pair()
    outcome = ["BLOCKED (still pending 1 s after the close)"]
    async with create_task_group() as tg:

        async def sender():
            try:
                await stream.send(BIG)
            except ClosedResourceError:
                pass

        async def receiver():
            try:
                await stream.receive()
                outcome[0] = "returned normally"
            except ClosedResourceError:
                outcome[0] = "ClosedResourceError"
            except Exception as exc:
                outcome[0] = type(exc).__name__

        tg.start_soon(sender)
        tg.start_soon(receiver)
        await anyio.wait_all_tasks_blocked()
        with move_on_after(0):  # an already expired deadline
            await stream.aclose()

        await anyio.sleep(1)
        tg.cancel_scope.cancel()

    await peer.aclose()
    return {"blocked receive": outcome[0]}


def main() -> int:
    violated = False
    for name, options in CONFIGS.items():
        res_a = anyio.run(scenario_a, backend_options=options)
        res_b = anyio.run(scenario_b, backend_options=options)
        res_c = anyio.run(scenario_c, backend_options=options)
        print(f"[{name}]")
        print(f"  A: receive() on the closed stream -> {res_a['receive']}")
        print(f"  A: send()    on the closed stream -> {res_a['send']}")
        print(f"  B: send() pending when the stream was closed -> {res_b['blocked send']}")
        print(f"  C: receive() pending when the stream was closed -> {res_c['blocked receive']}")
        for value in (res_a["send"], res_b["blocked send"], res_c["blocked receive"]):
            if value != "ClosedResourceError":
                violated = True

    print("expected: ClosedResourceError in all four lines")
    print("VIOLATED" if violated else "holds")
    return 1 if violated else 0


if __name__ == "__main__":
    sys.exit(main())
