"""F12 (C02): when a member of a task group fails while the group's scope is already
*effectively* cancelled through an enclosing scope, the group does not cancel its own scope.
If that enclosing cancellation is later cut off by a shield, the group's remaining tasks are
no longer cancelled although a member has failed: they keep running and the error does not
surface until they finish on their own."""
import anyio
from anyio import CancelScope, create_task_group

log = []


async def failing():
    raise ValueError("member failed")


async def main():
    t0 = anyio.current_time()
    try:
        with CancelScope() as outer:
            with CancelScope() as middle:
                outer.cancel()
                async with create_task_group() as tg:
                    tg.start_soon(failing)
                    with CancelScope(shield=True):
                        await anyio.sleep(0.05)       # the member fails meanwhile
                    middle.shield = True              # cuts the group off from `outer`
                    try:
                        await anyio.sleep(1)          # a failed group must cancel this
                        log.append("body kept running for 1 s after a member had failed")
                    except BaseException as e:
                        log.append(f"body interrupted after {anyio.current_time() - t0:.2f}s")
                        raise
    except BaseException as e:
        log.append(f"raised {e!r}")
    print(log)
    assert log[0].startswith("body interrupted"), log


anyio.run(main)
