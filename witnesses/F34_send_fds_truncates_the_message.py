"""C18: "Bytes sent over a connected TCP or UNIX socket stream are received by the peer
completely, in order and without duplication, for any message sizes ... also ... when the
writer outpaces the reader (back-pressure rather than loss ...)"

UNIXSocketStream.send_fds(message, fds) calls socket.sendmsg() once and ignores the number of
bytes it reports as sent.  On a (non-blocking) stream socket sendmsg() accepts only as much as
fits into the socket buffer, so the tail of the message is silently dropped while send_fds()
returns normally:

  case 1: a message larger than the socket buffer on an idle connection
  case 2: a message smaller than the socket buffer when the writer outpaces the reader

The bytes sent afterwards with send() arrive, so the peer sees a stream with a hole in it.
Exit status 1 = property violated, 0 = holds.
"""
import asyncio
import os
import sys
import tempfile

import anyio
from anyio import (
    connect_unix,
    create_task_group,
    create_unix_listener,
    fail_after,
    move_on_after,
)


def eager_loop_factory():
    loop = asyncio.new_event_loop()
    loop.set_task_factory(asyncio.eager_task_factory)
    return loop


CONFIGS = {
    "stock": {},
    "eager_task_factory": {"loop_factory": eager_loop_factory},
    "uvloop": {"use_uvloop": True},
}


async def unix_pair():
    path = os.path.join(tempfile.mkdtemp(), "sock")
    listener = await create_unix_listener(path)
    accepted = []
    async with create_task_group() as tg:

        async def accept():
            accepted.append(await listener.accept())

        tg.start_soon(accept)
        client = await connect_unix(path)

    await listener.aclose()
    return client, accepted[0]


def pattern(size: int, salt: int) -> bytes:
    return bytes((i * 7 + salt) % 251 for i in range(size))


async def transfer(message: bytes, preload: bool):
    """Send [filler] + message (with one fd) + b"<END>" and return what the peer received."""
    sender, receiver = await unix_pair()
    read_fd, write_fd = os.pipe()
    filler = b""
    received = bytearray()
    received_fds: list[int] = []
    paused = False
    try:
        with fail_after(20):
            if preload:
                # The writer outpaces the reader: fill the socket buffer until send() blocks
                chunk = b"\xff" * 4096
                while True:
                    with move_on_after(0.05) as scope:
                        await sender.send(chunk)

                    if scope.cancelled_caught:
                        break

                    filler += chunk

            async with create_task_group() as tg:

                async def tx():
                    await sender.send_fds(message, [read_fd])  # returns normally
                    await sender.send(b"<END>")
                    await sender.send_eof()

                tg.start_soon(tx)
                await anyio.sleep(0.1)
                try:
                    while True:
                        data, fds = await receiver.receive_fds(4096, 4)
                        received += data
                        received_fds += fds
                        if preload and not paused and len(received) >= 150_000:
                            paused = True
                            await anyio.sleep(0.5)  # a reader that falls behind
                except anyio.EndOfStream:
                    pass
    finally:
        for fd in [read_fd, write_fd, *received_fds]:
            os.close(fd)

        await sender.aclose()
        await receiver.aclose()

    # With a cancelled send() a prefix of the last filler chunk may have been sent as well
    body = bytes(received).lstrip(b"\xff")
    return body, len(received_fds)


async def main():
    report = []
    for label, size, preload in (
        ("case 1: 1 MB message, idle connection", 1_000_000, False),
        ("case 2: 200 kB message (smaller than the socket buffer), socket buffer full, reader falls behind", 200_000, True),
    ):
        message = pattern(size, 3)
        body, nfds = await transfer(message, preload)
        expected = message + b"<END>"
        ok = body == expected
        report.append(
            (
                label,
                ok,
                f"peer received {len(body)} of {len(expected)} bytes after send_fds() and "
                f"send() both returned normally; file descriptors received: {nfds}; "
                f"received data is message[:{len(body) - 5}] + b'<END>': "
                f"{body == message[: len(body) - 5] + b'<END>'}",
            )
        )

    return report


if __name__ == "__main__":
    violated = False
    for name, options in CONFIGS.items():
        print(f"[{name}]")
        for label, ok, text in anyio.run(main, backend_options=options):
            print(f"  {label}: {'ok' if ok else 'DATA LOST'} - {text}")
            violated = violated or not ok

    print("expected: the peer receives the complete message followed by <END>")
    print("VIOLATED" if violated else "holds")
    sys.exit(1 if violated else 0)
