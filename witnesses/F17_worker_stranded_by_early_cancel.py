"""F17 (C14): a to_thread.run_sync(..., abandon_on_cancel=True) call that is cancelled BEFORE
its worker thread has picked the work item up strands that worker: WorkerThread.run() skips
both the function and the report to the loop when the future is already cancelled, so the
worker never returns to the idle deque.  It can neither be reused nor pruned and sits in
queue.get() until the event loop ends; every such call leaks one OS thread.

Exit 1 if worker threads are left outside the idle pool although nothing is running.

    PYTHONPATH=/repo/src /venv/bin/python witnesses/F17_worker_stranded_by_early_cancel.py
"""
import sys
import threading

import anyio
from anyio import to_thread
from anyio._backends import _asyncio as A

# the window is "item queued, worker thread not yet scheduled by the OS": keep the loop
# thread on the CPU for that one loop iteration so that the demonstration is deterministic
sys.setswitchinterval(0.5)
ran = []


async def main() -> int:
    for n in range(5):
        scope = anyio.CancelScope()

        async def caller() -> None:
            with scope:
                await to_thread.run_sync(ran.append, n, abandon_on_cancel=True)

        async def canceller() -> None:
            await anyio.sleep(0)  # caller passes the limiter's checkpoint meanwhile
            scope.cancel()        # same loop iteration in which the caller queued the item

        async with anyio.create_task_group() as tg:
            tg.start_soon(caller)
            tg.start_soon(canceller)

    await anyio.sleep(0.3)
    workers = A._threadpool_workers.get()
    idle = A._threadpool_idle_workers.get()
    alive = [t for t in threading.enumerate() if t.name == "AnyIO worker thread"]
    print(f"functions that ran: {ran}; worker threads alive: {len(alive)}, "
          f"in the pool's worker set: {len(workers)}, idle: {len(idle)}")
    return 1 if len(workers) > len(idle) else 0


sys.exit(anyio.run(main))
