"""F9 (C20): an expired (ttl) entry that is recomputed kept its OLD position in the LRU
order, so the entry that was just recomputed (most recently used) was the next one evicted
while an older, expired one survived."""
import anyio
from anyio.functools import lru_cache

calls = []


@lru_cache(maxsize=3, ttl=2)
async def fn(k):
    calls.append(k)
    return k


async def main():
    await fn(1); await fn(3)          # t=0: cache = [1, 3]
    await anyio.sleep(2.1)            # both expire
    await fn("b")                     # cache = [1x, 3x, b]
    await fn(1)                       # expired -> recomputed: 1 is now the most recent
    await fn("a")                     # full -> evict the LEAST recently used (3)
    calls.clear()
    await fn(1)                       # must be a hit
    print("recomputed after being most-recently-used:", calls, "(expected [])")
    assert calls == []


anyio.run(main)
