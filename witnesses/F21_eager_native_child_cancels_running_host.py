"""F21 (C05), eager task factory on CPython < 3.13 only.

The host of a cancel scope starts a NATIVE task (loop.create_task / asyncio.TaskGroup) inside
the scope.  With asyncio.eager_task_factory the child runs inside create_task(), i.e. while
the host is on the stack; asyncio.current_task() is the child.  The child cancels the scope.
The delivery code skips only the *current* task, so it calls Task.cancel() on the host - a
task that is running, not suspended: the request is parked in Task._must_cancel.  The host
leaves the scope without suspending in it; __exit__ takes the request back with uncancel(),
which on CPython < 3.13 does not clear _must_cancel.  The first await AFTER the scope raises
a CancelledError that belongs to a scope which no longer exists.

Exit 1 if an await after the scope is interrupted.

    PYTHONPATH=/repo/src /venv/bin/python witnesses/F21_eager_native_child_cancels_running_host.py
"""
import asyncio
import sys

import anyio
from anyio import CancelScope


async def child(scope: CancelScope) -> None:
    scope.cancel()


async def main() -> int:
    loop = asyncio.get_running_loop()
    loop.set_task_factory(asyncio.eager_task_factory)
    report = []

    async def host() -> None:
        with CancelScope() as scope:
            loop.create_task(child(scope))  # eager: runs right here and cancels the scope

        report.append(f"left the scope: cancel_called={scope.cancel_called}, "
                      f"cancelling()={asyncio.current_task().cancelling()}")
        try:
            await asyncio.sleep(0)
            report.append("the await after the scope ran undisturbed")
        except asyncio.CancelledError as e:
            report.append(f"STRAY CancelledError at the await after the scope: {e.args[0][:50]}...")

    t = loop.create_task(host())
    await asyncio.wait([t])
    print("\n".join(report))
    return 1 if any(r.startswith("STRAY") for r in report) else 0


sys.exit(anyio.run(main))
