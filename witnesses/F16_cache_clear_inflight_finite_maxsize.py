"""F16 (C20): cache_clear() while a call is in flight, finite maxsize.

cache_clear() detaches the cache dict and resets the size counter, but a call that has
already picked up the old dict and is about to take the key's lock still increments the
counter afterwards (for an entry in the detached dict).  The live cache then
believes it is full although it is empty: the next miss "evicts" its own fresh placeholder,
and a further caller of the same key starts a second, overlapping execution.

Exit 1 if two executions of the wrapped function for the same key overlap.

    PYTHONPATH=/repo/src /venv/bin/python witnesses/F16_cache_clear_inflight_finite_maxsize.py
"""
import sys

import anyio
from anyio.functools import lru_cache

running = 0
max_running = 0
log = []


@lru_cache(maxsize=1, always_checkpoint=True)
async def f(key: int) -> int:
    global running, max_running
    running += 1
    max_running = max(max_running, running)
    log.append(f"start f({key}) running={running}")
    for _ in range(4):
        await anyio.sleep(0)

    running -= 1
    return key


async def main() -> None:
    async with anyio.create_task_group() as tg:
        tg.start_soon(f, 0)          # A: has looked up the cache, yields while taking the lock
        await anyio.sleep(0)
        f.cache_clear()              # ... when the cache is cleared
        for _ in range(6):
            await anyio.sleep(0)     # A counts itself (counter -> 1) and completes into the detached dict

        tg.start_soon(f, 0)          # B: miss in the live cache, "evicts" its own placeholder
        await anyio.sleep(0)
        await anyio.sleep(0)
        tg.start_soon(f, 0)          # C: same key, B still running -> second execution


anyio.run(main)
print("\n".join(log))
print("max concurrent executions of f(0):", max_running)
sys.exit(1 if max_running > 1 else 0)
