"""F18 (C18): a UNIX socket stream is closed by a third task while one task is blocked in
receive() and another in a back-pressured send() on it.  Under uvloop the loop still watches
the socket for the other direction when the first waiter is woken, so close() has not really
closed the file descriptor yet: the woken task finds the socket still usable, goes back to
waiting - and nobody will ever wake it again.  Both operations hang for ever instead of
raising ClosedResourceError.  (On the stock loop both end correctly, with "Invalid file
descriptor" errors logged from the waiters' done-callbacks.)

Exit 1 if receive()/send() do not both end with ClosedResourceError within 5 s on uvloop.

    PYTHONPATH=/repo/src /venv/bin/python witnesses/F18_unix_close_with_both_directions_pending.py
"""
import os
import sys
import tempfile

import anyio


async def main() -> int:
    path = os.path.join(tempfile.mkdtemp(), "s")
    listener = await anyio.create_unix_listener(path)
    accepted = {}

    async def accept() -> None:
        accepted["s"] = await listener.accept()

    async with anyio.create_task_group() as tg:
        tg.start_soon(accept)
        stream = await anyio.connect_unix(path)

    outcome = {}

    async def sender() -> None:
        try:
            while True:
                await stream.send(b"x" * 65536)  # the peer never reads: blocks soon
        except BaseException as e:  # noqa: BLE001
            outcome["send"] = type(e).__name__

    async def receiver() -> None:
        try:
            await stream.receive()  # the peer never writes: blocks
        except BaseException as e:  # noqa: BLE001
            outcome["receive"] = type(e).__name__

    with anyio.move_on_after(5) as scope:
        async with anyio.create_task_group() as tg:
            tg.start_soon(sender)
            tg.start_soon(receiver)
            await anyio.sleep(0.3)
            await stream.aclose()

    print("timed out" if scope.cancelled_caught else "finished", outcome)
    await accepted["s"].aclose()
    await listener.aclose()
    ok = outcome == {"send": "ClosedResourceError", "receive": "ClosedResourceError"}
    return 0 if ok else 1


sys.exit(anyio.run(main, backend_options={"use_uvloop": True}))
