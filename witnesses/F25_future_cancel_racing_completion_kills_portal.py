"""C15: future.cancel() from a foreign thread landing between `future.cancelled()` and
`future.set_result()` in BlockingPortal._call_func (schedule forced with sys.settrace; the
library source is not modified)."""
import inspect, sys, threading, time
from concurrent.futures import CancelledError
import anyio
from anyio.from_thread import BlockingPortal, start_blocking_portal

code = BlockingPortal._call_func.__code__
src, first = inspect.getsourcelines(BlockingPortal._call_func)
target_line = next(first + i for i, l in enumerate(src) if "future.set_result(retval)" in l)

victim = {}            # the future we are going to cancel
at_line = threading.Event()
cancel_started = threading.Event()

def local_tracer(frame, event, arg):
    if event == "line" and frame.f_lineno == target_line and frame.f_locals.get("future") is victim.get("f"):
        # `if not future.cancelled()` has just been evaluated to True; let the other thread cancel now
        at_line.set()
        while not victim["f"].cancelled():
            time.sleep(0.001)
    return local_tracer

def tracer(frame, event, arg):
    if frame.f_code is code:
        return local_tracer
    return None

async def quick():
    await anyio.sleep(0.05)
    return 1

async def bystander():
    await anyio.sleep(3600)
    return "bystander done"

def canceller():
    at_line.wait()
    victim["f"].cancel()

def main():
    rc = 0
    try:
        with start_blocking_portal() as portal:
            portal.call(sys.settrace, tracer)
            by = portal.start_task_soon(bystander)
            victim["f"] = f = portal.start_task_soon(quick)
            t = threading.Thread(target=canceller)
            t.start()
            t.join(5)
            time.sleep(0.3)
            print("victim future cancelled:", f.cancelled())
            print("bystander future done:", by.done(), "| cancelled:", by.done() and by.cancelled())
            try:
                portal.call(int)
                print("portal still accepts calls")
            except BaseException as e:
                print("portal.call after the race raised:", repr(e))
                rc = 1
            if by.done():
                print("VIOLATION: cancelling one future took down an unrelated task / the whole portal")
                rc = 1
            else:
                by.cancel()
    except BaseException as e:
        print("leaving start_blocking_portal raised", repr(e))
    return rc

sys.exit(main())
