"""F8 (C10): CapacityLimiter.acquire_on_behalf_of(borrower) took the uncontended path, was
natively cancelled during its shielded yield, and then released on behalf of the *current
task* instead of `borrower`: RuntimeError replaces the CancelledError and the token leaks."""
import asyncio
import anyio


async def main():
    lim = anyio.CapacityLimiter(1)

    async def acq():
        await lim.acquire_on_behalf_of("borrower")

    t = asyncio.get_running_loop().create_task(acq())
    await asyncio.sleep(0)          # task is inside cancel_shielded_checkpoint, token taken
    t.cancel()
    try:
        await t
    except BaseException as e:
        print("acquire raised:", type(e).__name__, e)
    print("borrowed_tokens after cancelled acquire:", lim.borrowed_tokens, "(expected 0)")
    assert lim.borrowed_tokens == 0


anyio.run(main)
