"""F27 (C20): the size counter of an lru_cache wrapper is shared by the caches of all event
loops, the entries are per loop.

A decorated function (maxsize=2) caches two results in a first event loop; that loop ends.
In a second loop the cache is empty but the counter says "full": every miss evicts the oldest
entry - in an empty cache the very placeholder the caller has just installed - so nothing is
retained, equal concurrent calls all run the function at the same time, and a failing call
can surface as KeyError.

Exit 1 if the second loop recomputes a key it should have retained or runs equal calls
concurrently.

    PYTHONPATH=/repo/src /venv/bin/python witnesses/F27_lru_cache_second_event_loop.py
"""
import sys

import anyio
from anyio.functools import lru_cache

calls = []
running = 0
max_running = 0


@lru_cache(maxsize=2)
async def f(x: int) -> int:
    global running, max_running
    calls.append(x)
    running += 1
    max_running = max(max_running, running)
    try:
        await anyio.sleep(0)
        return x
    finally:
        running -= 1


async def first() -> None:
    await f(1)
    await f(2)


async def second() -> None:
    calls.clear()
    await f(1)
    await f(2)
    await f(1)  # two results fit: this is a hit
    async with anyio.create_task_group() as tg:
        for _ in range(3):
            tg.start_soon(f, 7)


anyio.run(first)
anyio.run(second)
print("executions in the second loop:", calls, "| max concurrent:", max_running)
sys.exit(0 if calls == [1, 2, 7] and max_running == 1 else 1)
