from __future__ import annotations
import asyncio, os, tempfile, sys
import anyio

CONFIGS = [
    ("asyncio", {}),
    ("uvloop", {"use_uvloop": True}),
    ("eager", {"loop_factory": None}),  # patched below
]

def _eager_loop():
    loop = asyncio.new_event_loop()
    loop.set_task_factory(asyncio.eager_task_factory)
    return loop
CONFIGS[2] = ("eager", {"loop_factory": _eager_loop})

async def make_pair(kind):
    """returns (client_stream, server_stream, cleanup)"""
    if kind == "tcp":
        listener = await anyio.create_tcp_listener(local_host="127.0.0.1")
        port = listener.extra(anyio.abc.SocketAttribute.local_port)
        async with anyio.create_task_group() as tg:
            res = {}
            async def acc():
                res["s"] = await listener.listeners[0].accept()
            tg.start_soon(acc)
            res["c"] = await anyio.connect_tcp("127.0.0.1", port)
        await listener.aclose()
        return res["c"], res["s"]
    else:
        d = tempfile.mkdtemp()
        path = os.path.join(d, "s")
        listener = await anyio.create_unix_listener(path)
        async with anyio.create_task_group() as tg:
            res = {}
            async def acc():
                res["s"] = await listener.accept()
            tg.start_soon(acc)
            res["c"] = await anyio.connect_unix(path)
        await listener.aclose()
        return res["c"], res["s"]

def run_all(main, kinds=("tcp", "unix"), configs=None):
    """main(kind, cfgname) -> list of violations"""
    bad = []
    for name, opts in CONFIGS:
        if configs and name not in configs:
            continue
        for kind in kinds:
            try:
                r = anyio.run(main, kind, name, backend="asyncio", backend_options=opts)
            except BaseException as e:
                import traceback; traceback.print_exc()
                r = [("exception", repr(e))]
            for x in r or []:
                bad.append((name, kind) + tuple(x))
    return bad
