"""F15 (C18): a TCP SocketStream.receive() that is cancelled while it waits for data leaves
the transport reading.  From then on incoming data piles up in the protocol's read queue in
user space no matter whether anybody calls receive(): the writer never experiences
back-pressure.  Exit 1 if the writer could push PAYLOAD bytes (far beyond both socket buffers)
while the reader was not receiving.

    PYTHONPATH=/repo/src /venv/bin/python witnesses/F15_cancelled_receive_unpaused.py
"""
import socket
import sys

import anyio

PAYLOAD = 8 << 20


async def main() -> int:
    multi = await anyio.create_tcp_listener(local_host="127.0.0.1")
    listener = multi.listeners[0]
    port = listener.extra(anyio.abc.SocketAttribute.local_port)
    accepted = []

    async def accept() -> None:
        accepted.append(await listener.accept())

    async with anyio.create_task_group() as tg:
        tg.start_soon(accept)
        reader = await anyio.connect_tcp("127.0.0.1", port)

    writer = accepted[0]
    for s in (reader, writer):
        raw = s.extra(anyio.abc.SocketAttribute.raw_socket)
        raw.setsockopt(socket.SOL_SOCKET, socket.SO_SNDBUF, 32768)
        raw.setsockopt(socket.SOL_SOCKET, socket.SO_RCVBUF, 32768)

    # the reader waits for data that has not been sent yet and gives up
    with anyio.move_on_after(0.05) as scope:
        await reader.receive()

    assert scope.cancelled_caught
    sent = 0

    async def push() -> None:
        nonlocal sent
        chunk = b"x" * 65536
        while sent < PAYLOAD:
            await writer.send(chunk)
            sent += len(chunk)

    with anyio.move_on_after(3):
        await push()  # nobody is receiving

    queued = sum(map(len, reader._protocol.read_queue))
    print(f"writer pushed {sent} bytes while nobody was receiving; "
          f"{queued} bytes sit in the reader's user-space queue")
    await reader.aclose()
    await writer.aclose()
    await multi.aclose()
    return 1 if sent >= PAYLOAD else 0


sys.exit(anyio.run(main))
