"""F20 (C05): the uncancel() calls owed to a CHILD task are made on the task group's HOST.

A cancel scope that cancelled itself counts the Task.cancel() calls it made on its host task
and, when it cannot absorb the cancellation because an enclosing cancelled scope is visible,
hands that count to its parent scope.  For the outermost scope of a child task the parent
scope is the task group's scope - which lives in another task.  When the group's scope then
absorbs its own cancellation it calls uncancel() on the group's host once too often per
hand-over, and a native cancellation request the host was holding is eaten.

Part 1: the host's Task.cancelling() is 1 before the group and 0 after it.
Part 2: what that does to asyncio.timeout(): a task is cancelled from outside in the very
iteration in which its asyncio.timeout() expires; its cleanup uses such a task group; the
timeout then believes the only request was its own and turns the external cancellation into
TimeoutError.

Exit 1 if either happens.

    PYTHONPATH=/repo/src /venv/bin/python witnesses/F20_uncancel_handed_to_another_task.py
"""
import asyncio
import sys

import anyio
from anyio import CancelScope, create_task_group


async def child() -> None:
    with CancelScope() as inner:
        inner.cancel()
        await anyio.sleep(1)


async def group_with_self_cancelling_child() -> None:
    async with create_task_group() as tg:
        tg.start_soon(child)
        await asyncio.sleep(0)  # the child runs and cancels its own scope
        tg.cancel_scope.cancel()  # the group is cancelled too before the child unwinds
        await anyio.sleep(1)


async def part1() -> bool:
    async def host() -> tuple[int, int]:
        me = asyncio.current_task()
        me.cancel()  # a native request that this task catches and keeps holding
        try:
            await asyncio.sleep(0)
        except asyncio.CancelledError:
            pass

        before = me.cancelling()
        await group_with_self_cancelling_child()
        return before, me.cancelling()

    before, after = await asyncio.get_running_loop().create_task(host())
    print(f"part 1: Task.cancelling() before the group: {before}, after it: {after}")
    return before == after


async def part2() -> bool:
    outcome = []

    async def victim() -> None:
        try:
            async with asyncio.timeout(0.05):
                try:
                    await asyncio.sleep(10)
                except asyncio.CancelledError:
                    await group_with_self_cancelling_child()  # clean-up work
                    raise
        except TimeoutError:
            outcome.append("TimeoutError")
            return

    loop = asyncio.get_running_loop()
    t = loop.create_task(victim())
    # cancel from outside in the iteration in which the timeout fires
    loop.call_at(loop.time() + 0.05, t.cancel)
    await asyncio.wait([t])
    outcome.append("cancelled" if t.cancelled() else "finished normally")
    print("part 2: task cancelled from outside while its timeout expired ->", outcome)
    return t.cancelled()


async def main() -> int:
    ok1 = await part1()
    ok2 = await part2()
    return 0 if ok1 and ok2 else 1


sys.exit(anyio.run(main))
