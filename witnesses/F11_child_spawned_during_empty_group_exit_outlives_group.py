"""F11 (C01): TaskGroup.__aexit__ with no children runs one shielded checkpoint and then
leaves without looking at its task set again; a task that another task spawns into the
group during that checkpoint (the group is still active, so the spawn is accepted) outlives
the ``async with`` block."""
import anyio
from anyio import create_task_group

log = []


async def sleeper():
    log.append("sleeper started")
    try:
        await anyio.sleep(0.2)
        log.append("sleeper finished")
    except BaseException as e:
        log.append(f"sleeper interrupted: {type(e).__name__}")
        raise


async def spawner(inner):
    inner.start_soon(sleeper)       # accepted: the inner group is still active
    log.append("spawned into inner group")


async def main():
    async with create_task_group() as outer:
        async with create_task_group() as inner:
            outer.start_soon(spawner, inner)
            # empty body, no children: __aexit__ takes the "no child tasks" path
        log.append("inner group exited")
        await anyio.sleep(0.5)
    print(log)
    i = log.index("inner group exited")
    assert not any(x.startswith("sleeper") for x in log[i:]), "child outlived its task group"


anyio.run(main)
