"""F13 (C15): a task that was accepted by the portal (start_task_soon returned a future) but
only starts executing after stop() has run cannot be cancelled through its future: the
done-callback decides how to cancel from ``portal._event_loop_thread_id`` sampled when the
task starts, and stop() has already cleared it."""
import threading
import time

import anyio
from anyio.from_thread import start_blocking_portal

log = []


async def blocker():
    log.append("task started")
    try:
        await anyio.sleep(3)
        log.append("task finished normally after 3 s")
    except BaseException as e:
        log.append(f"task interrupted: {type(e).__name__}")
        raise


with start_blocking_portal() as portal:
    portal.start_task_soon(time.sleep, 0.3)                  # keeps the loop thread busy
    time.sleep(0.05)
    tb = threading.Thread(target=lambda: portal.call(portal.stop))
    tb.start()                                               # queued behind the sleep
    time.sleep(0.05)
    f = portal.start_task_soon(blocker)                      # accepted: portal still running
    time.sleep(0.5)                                          # stop() ran, then the task started
    f.cancel()
    t0 = time.monotonic()
    tb.join()

print(log, f"portal exit took {time.monotonic() - t0:.2f}s after the cancel")
assert any("interrupted" in x for x in log), "cancelling the future did not cancel its task"
