"""F19 (C20): an lru_cache entry expires while callers of the previous computation are still
queued on that computation's lock.

    holder H computes key k; W1 and W2 wait on the entry's lock
    H stores the result (ttl=0: it expires the moment it is stored) and releases to W1
    W1 is served the result; a fresh caller N arrives: the entry is expired, so N replaces it
      with a NEW placeholder and a NEW lock and starts computing
    W2 gets the OLD lock, finds a placeholder (N's) and takes it for its own: it runs the
      function too - two executions for equal arguments at the same time

With an integer ttl >= 1 the same needs a queued waiter to resume >= ttl seconds after the
result was stored (a stalled loop); ttl=0 makes it deterministic.

Exit 1 if the wrapped function ran twice at the same time for equal arguments.

    PYTHONPATH=/repo/src /venv/bin/python witnesses/F19_expiry_with_waiters_queued.py
"""
import sys

import anyio
from anyio.functools import lru_cache

running = 0
max_running = 0


@lru_cache(ttl=0)
async def fn(key: int) -> int:
    global running, max_running
    running += 1
    max_running = max(max_running, running)
    try:
        for _ in range(3):
            await anyio.sleep(0)

        return key
    finally:
        running -= 1


async def late(delay: int) -> None:
    for _ in range(delay):
        await anyio.sleep(0)

    await fn(1)


async def main() -> None:
    async with anyio.create_task_group() as tg:
        for _ in range(3):
            tg.start_soon(fn, 1)  # holder + two queued waiters

        for delay in range(2, 10):
            tg.start_soon(late, delay)  # fresh callers around the completion


anyio.run(main)
print("max concurrent executions for equal arguments:", max_running)
sys.exit(1 if max_running > 1 else 0)
