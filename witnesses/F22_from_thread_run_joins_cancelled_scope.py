"""
F22 (C14 / C03 / C08): from_thread.run() from a worker thread whose caller has been cancelled (default abandon_on_cancel=False).
Fixed in the library; exit 1 = defect present.

    PYTHONPATH=/repo/src /venv/bin/python witnesses/F22_from_thread_run_joins_cancelled_scope.py

(written by an independent reviewer; its own description follows)
C03: a task started with from_thread.run() inside an ALREADY cancelled scope is never
cancelled (the scope's delivery loop has wound down and nobody restarts it).

Scenario: host task is in `with CancelScope() as scope: await to_thread.run_sync(worker)`
(default abandon_on_cancel=False, so the worker's tasks are attached to `scope`, the parent
of to_thread's private shielded scope).  The scope gets cancelled while the worker thread
is busy; afterwards the worker calls from_thread.run(...).

Part 1: from_thread.run(anyio.sleep, 1.5)  -> expected: interrupted promptly;
        observed: sleeps the full 1.5 s and completes normally.
Part 2: from_thread.run(lowlevel.checkpoint_if_cancelled) -> expected: raises promptly;
        observed: spins forever in `await sleep(0)` (checked with a 1.5 s watchdog), which
        also deadlocks the (shielded) host task.
Control: same thing but scope cancelled WHILE the from_thread.run task is blocked ->
        interrupted promptly (delivery loop restarted by cancel()).
"""
import sys
import threading
import time

import anyio
from anyio import CancelScope, from_thread, lowlevel, to_thread

violations = []


async def control() -> None:
    res = {}

    async def sleeper():
        scope.cancel()          # cancel arrives while this task is running/blocked
        await anyio.sleep(1.5)

    def worker():
        t0 = time.monotonic()
        try:
            from_thread.run(sleeper)
            res["outcome"] = "completed"
        except BaseException as e:
            res["outcome"] = f"raised {type(e).__name__}"
        res["elapsed"] = round(time.monotonic() - t0, 2)

    with CancelScope() as scope:
        await to_thread.run_sync(worker)
    print("control:", res)
    assert res["outcome"].startswith("raised") and res["elapsed"] < 0.5


async def part1() -> None:
    res = {}

    def worker():
        from_thread.run_sync(scope.cancel)       # scope cancelled, nothing to deliver to
        time.sleep(0.05)
        t0 = time.monotonic()
        try:
            from_thread.run(anyio.sleep, 1.5)     # enters a cancelled scope afterwards
            res["outcome"] = "completed normally"
        except BaseException as e:
            res["outcome"] = f"raised {type(e).__name__}"
        res["elapsed"] = round(time.monotonic() - t0, 2)

    with CancelScope() as scope:
        await to_thread.run_sync(worker)
    print("part1:", res, "scope.cancel_called =", scope.cancel_called)
    if res["outcome"] == "completed normally" and res["elapsed"] >= 1.4:
        violations.append(
            "part1: anyio.sleep(1.5) inside a cancelled scope ran to completion "
            f"({res['elapsed']} s), never interrupted"
        )


async def part2() -> None:
    res = {"iterations": 0}
    give_up = threading.Event()

    async def probe():
        # what every AnyIO primitive does first; must raise since scope is cancelled
        task = __import__("asyncio").current_task()
        res["task"] = task
        await lowlevel.checkpoint_if_cancelled()

    def worker():
        from_thread.run_sync(scope.cancel)
        time.sleep(0.05)
        try:
            from_thread.run(probe)
            res["outcome"] = "returned"
        except BaseException as e:
            res["outcome"] = f"raised {type(e).__name__}"

    def watchdog():
        # after 1.5 s, if the probe is still spinning, kill it natively so the demo ends
        time.sleep(1.5)
        if "outcome" not in res:
            res["watchdog_fired"] = True
            loop.call_soon_threadsafe(res["task"].cancel)

    import asyncio

    loop = asyncio.get_running_loop()
    threading.Thread(target=watchdog, daemon=True).start()
    t0 = time.monotonic()
    with CancelScope() as scope:
        await to_thread.run_sync(worker)
    print("part2:", {k: v for k, v in res.items() if k != "task"},
          "elapsed", round(time.monotonic() - t0, 2))
    if res.get("watchdog_fired"):
        violations.append(
            "part2: checkpoint_if_cancelled() in a cancelled scope spun for 1.5 s without "
            "the cancellation ever landing (would spin forever; host deadlocked)"
        )


async def main() -> None:
    await control()
    await part1()
    await part2()


anyio.run(main)
for v in violations:
    print("VIOLATION", v)
sys.exit(1 if violations else 0)
