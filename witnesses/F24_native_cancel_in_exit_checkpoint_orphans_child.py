"""C01: a native Task.cancel() of the host arriving during the exit checkpoint of a childless
task group aborts __aexit__ without waiting for a task that was started in the group during
that same checkpoint.  The block exits, the child keeps running (it is not even cancelled) and
its handle is still PENDING."""
import asyncio
import sys

import anyio
from _cfg import run_all


async def main():
    log = []
    st = {"exited": False, "steps_after_exit": 0}

    async def child():
        log.append("child: started")
        for _ in range(5):
            await asyncio.sleep(0)
            if st["exited"]:
                st["steps_after_exit"] += 1
        log.append(f"child: ran to completion; steps after block exit = {st['steps_after_exit']}")
        return "done"

    async def host():
        try:
            async with anyio.create_task_group() as tg:
                st["tg"] = tg
                st["host"] = asyncio.current_task()
                await asyncio.sleep(0)
                # body ends with no children -> __aexit__ runs its (shielded) checkpoint
        finally:
            st["exited"] = True
            h = st.get("handle")
            st["status_at_exit"] = h.status if h else None
            log.append(f"host: block exited; child handle status = {st['status_at_exit']}")

    async def third_party():
        await asyncio.sleep(0)
        # the host is now suspended in the exit checkpoint of __aexit__
        st["handle"] = st["tg"].start_soon(child)  # legal: the group is still active
        st["host"].cancel()  # native cancellation (what asyncio.timeout()/wait_for() do)

    t1 = asyncio.create_task(host())
    t2 = asyncio.create_task(third_party())
    await asyncio.wait([t1, t2])
    t2.result()
    log.append(f"host task cancelled = {t1.cancelled()}")
    for _ in range(10):
        await asyncio.sleep(0)
    log.append(f"later: handle status = {st['handle'].status}")
    violated = st["steps_after_exit"] > 0 or st["status_at_exit"].name not in (
        "FINISHED",
        "FAILED",
        "CANCELLED",
    )
    return violated, log


sys.exit(1 if run_all(main) else 0)
