"""C18 candidate: TCP SocketStream.send() keeps queueing data in user space when earlier
send() calls were cancelled (timed out) while blocked on the write gate.

The peer never reads.  The writer wraps every send() in a short timeout (a perfectly
ordinary "send with deadline" loop).  Each timed-out send() has already handed its item
to transport.write(); the next send() does NOT wait for the (closed) write gate before
writing again, so the transport's write buffer grows by one item per attempt, without
bound: there is no back-pressure any more.

Clause: "when the writer outpaces the reader (back-pressure rather than loss, unbounded
buffering or deadlock)".
"""
import sys
import anyio
from _sockutil import make_pair, run_all

CHUNK = 1 << 20
ROUNDS = 200

async def main(kind, cfg):
    c, s = await make_pair(kind)
    # fill the kernel buffers first so that every further send blocks
    with anyio.move_on_after(0.3):
        while True:
            await c.send(b"f" * CHUNK)
    completed = 0
    for i in range(ROUNDS):
        with anyio.move_on_after(0.002) as scope:
            await c.send(b"x" * CHUNK)
        if not scope.cancelled_caught:
            completed += 1
    if hasattr(c, "_transport"):
        buffered = c._transport.get_write_buffer_size()
    else:
        buffered = 0  # raw-socket stream: no user space buffer at all
    print(f"{cfg:8} {kind:5} sends completed={completed}/{ROUNDS}  user-space write buffer = {buffered} bytes "
          f"({buffered / CHUNK:.0f} items) while the peer reads nothing")
    await c.aclose(); await s.aclose()
    if buffered > 16 * CHUNK:
        return [("unbounded write buffer", buffered)]
    return []

bad = run_all(main)
print("VIOLATIONS:" if bad else "no violation")
for b in bad:
    print("  ", b)
sys.exit(1 if bad else 0)
