"""
C03-adjacent: live-lock in the anchored mechanism "checkpoint_if_cancelled spins until
cancellation lands" (src/anyio/_backends/_asyncio.py:2564-2581).

    with CancelScope() as outer:
        outer.cancel()                        # (or: deadline already passed)
        async with create_task_group() as tg:
            tg.start_soon(child)              # child: await lock.acquire()  (lock is FREE)
            try:
                await sleep(0)
            except CancelledError:
                pass
            tg.cancel_scope.shield = True     # supported run-time operation

checkpoint_if_cancelled() (used by Lock/Semaphore/CapacityLimiter.acquire, Condition.wait,
process stdin send(), lowlevel.checkpoint_if_cancelled, tempfile, itertools, ...) walks
up ONCE from the task's innermost scope, finds the cancelled `outer` and then loops

        while cancel_scope:
            if cancel_scope.cancel_called:
                await sleep(0)                # stays on `outer` forever

waiting for the cancellation to land.  If another task raises a shield on a scope that
lies between the spinning task and `outer` before the delivery callback of `outer` has
reached the task (same event loop cycle), the delivery skips the now shielded subtree
and winds down, but the spinning task never re-evaluates the scope chain: it busy-loops
on sleep(0) for as long as the shield stays up.  The uncontended acquire() neither
returns (as it should: the task is shielded and the lock is free) nor raises, the task
group can never finish -> permanent live-lock at 100 % CPU, reached with AnyIO-level
means only (cancel(), start_soon(), the shield setter).

Strictly, C03 as stated only speaks about tasks that are NOT behind a shield, so this is
a defect of the anchored mechanism rather than a violation of the letter of C03: the
task is stuck in a cancelled scope, behind a shield that was raised after it started to
wait, in an operation that has nothing to wait for.

The watchdog lowers the shield after 2000 event loop cycles so that the script ends.
Exit code 1 if the live-lock is observed.
"""
from __future__ import annotations

import asyncio
import sys

import anyio
from anyio import CancelScope, create_task_group


def eager_loop_factory():
    loop = asyncio.new_event_loop()
    loop.set_task_factory(asyncio.eager_task_factory)
    return loop


CONFIGS = {
    "asyncio": {},
    "eager": {"loop_factory": eager_loop_factory},
    "uvloop": {"use_uvloop": True},
}


async def scenario(opname: str) -> str:
    result = "child still stuck"
    cycles = 0

    async def child() -> None:
        nonlocal result
        try:
            if opname == "Lock.acquire":
                lock = anyio.Lock()
                await lock.acquire()
                lock.release()
            elif opname == "Semaphore.acquire":
                sem = anyio.Semaphore(1)
                await sem.acquire()
                sem.release()
            elif opname == "CapacityLimiter.acquire":
                lim = anyio.CapacityLimiter(1)
                await lim.acquire()
                lim.release()
            elif opname == "lowlevel.checkpoint_if_cancelled":
                await anyio.lowlevel.checkpoint_if_cancelled()
        except BaseException as exc:
            result = f"child got {type(exc).__name__}"
            raise
        else:
            result = "child completed the operation"

    loop = asyncio.get_running_loop()
    watchdog_fired = False

    def watchdog() -> None:
        # Counts event loop cycles; after 2000 cycles lower the shield again so that
        # the demonstration terminates.
        nonlocal cycles, watchdog_fired
        cycles += 1
        if cycles >= 2000:
            watchdog_fired = True
            tg.cancel_scope.shield = False
        else:
            loop.call_soon(watchdog)

    with CancelScope() as outer:
        # ready queue after this call: [delivery of outer]
        outer.cancel()
        async with create_task_group() as tg:
            # ready queue: [delivery, first step of child]
            tg.start_soon(child)
            loop.call_soon(watchdog)
            try:
                # ready queue: [delivery, first step of child, watchdog, host]
                await anyio.sleep(0)
            except BaseException:
                pass
            # By now: the delivery callback has cancelled the host (caught above) and
            # skipped the child (not started yet); the child has then started, entered
            # the operation and begun spinning in checkpoint_if_cancelled().  The next
            # delivery callback is queued behind us.  Raise a shield between the child
            # and `outer` (a supported run-time operation).
            tg.cancel_scope.shield = True

    print(
        f"  {opname}: {result}; event loop cycles until the task group could exit: "
        f"{cycles}; watchdog had to lower the shield: {watchdog_fired}"
    )
    return "stuck" if watchdog_fired else "ok"


async def main() -> bool:
    bad = False
    for op in (
        "Lock.acquire",
        "Semaphore.acquire",
        "CapacityLimiter.acquire",
        "lowlevel.checkpoint_if_cancelled",
    ):
        bad |= (await scenario(op)) == "stuck"
    return bad


if __name__ == "__main__":
    violated = False
    for name, opts in CONFIGS.items():
        print(f"[{name}]")
        violated |= anyio.run(main, backend_options=opts)

    if violated:
        print(
            "VIOLATION: an uncontended acquire()/checkpoint_if_cancelled() busy-looped for "
            "2000 event loop cycles inside a shielded scope and only ended (with "
            "CancelledError) when the shield was lowered again"
        )
        sys.exit(1)

    print("no violation")
    sys.exit(0)
