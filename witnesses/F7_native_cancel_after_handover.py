import asyncio, anyio
from anyio import create_memory_object_stream, WouldBlock, Condition, Event
from anyio.lowlevel import checkpoint
async def main():
    send, receive = create_memory_object_stream[str](1)
    with send, receive:
        t = asyncio.create_task(receive.receive())
        await asyncio.sleep(0); await asyncio.sleep(0)
        send.send_nowait("hello")     # handed directly to the blocked receiver
        t.cancel()                    # native cancel in the same cycle, after hand-over
        try:
            print("receive task got:", await t)
        except asyncio.CancelledError:
            print("receive task: CancelledError")
        try:
            print("still in stream:", receive.receive_nowait())
        except WouldBlock:
            print("ITEM LOST: not delivered, not in buffer;", send.statistics())
    # same for blocked send (buffer 0): receiver takes item, then sender natively cancelled
    send, receive = create_memory_object_stream[str](0)
    with send, receive:
        t = asyncio.create_task(send.send("x"))
        await asyncio.sleep(0); await asyncio.sleep(0)
        got = receive.receive_nowait()
        t.cancel()
        try: await t; print("send returned ok; receiver got", got)
        except asyncio.CancelledError: print("send cancelled but item delivered once:", got, "(allowed: at most once)")
    # Condition: notified then natively cancelled -> pass on
    cond=Condition(); woke=[]
    async def w(n):
        async with cond:
            await cond.wait(); woke.append(n)
    t1=asyncio.create_task(w(1)); t2=asyncio.create_task(w(2))
    for _ in range(4): await asyncio.sleep(0)
    async with cond:
        cond.notify(1); t1.cancel()
    for _ in range(6): await asyncio.sleep(0)
    print("condition: woke", woke, "t1 cancelled", t1.cancelled(), "waiting", cond.statistics().tasks_waiting)
    t2.cancel()
    await asyncio.gather(t1,t2,return_exceptions=True)
import io, sys, contextlib
buf = io.StringIO()
with contextlib.redirect_stdout(buf):
    anyio.run(main)
print(buf.getvalue(), end="")
sys.exit(1 if "ITEM LOST" in buf.getvalue() else 0)  # exit 1 = defect observed
