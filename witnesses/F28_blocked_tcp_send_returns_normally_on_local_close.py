"""C18 candidate: a TCP SocketStream.send() that is blocked by back-pressure returns
NORMALLY (no exception) when another task closes the stream locally, although only a
part of the item was transmitted and the rest was thrown away by aclose()'s abort().

Property clause: "on a locally closed stream send raises ClosedResourceError" /
"Bytes sent ... are received by the peer completely ... (back-pressure rather than loss)".
UNIX streams (same scenario) raise ClosedResourceError.
"""
import sys
import anyio
from _sockutil import make_pair, run_all

SIZE = 50_000_000

async def main(kind, cfg):
    c, s = await make_pair(kind)
    res = {}

    async def tx():
        try:
            await c.send(b"z" * SIZE)
            res["send"] = "returned normally"
        except BaseException as e:
            if isinstance(e, anyio.get_cancelled_exc_class()):
                raise
            res["send"] = type(e).__name__

    async with anyio.create_task_group() as tg:
        tg.start_soon(tx)
        await anyio.sleep(0.2)          # peer does not read: tx is blocked on the write gate
        assert "send" not in res, "send was expected to be blocked"
        await c.aclose()                # third party closes the stream locally

    # what did the peer actually get?
    got = 0
    try:
        with anyio.fail_after(10):
            while True:
                got += len(await s.receive())
    except anyio.EndOfStream:
        end = "EndOfStream"
    except BaseException as e:
        end = type(e).__name__
    await s.aclose()
    print(f"{cfg:8} {kind:5} send() -> {res['send']:22} peer received {got}/{SIZE} bytes, then {end}")
    if res["send"] != "ClosedResourceError":
        return [("send on locally closed stream", res["send"], got)]
    return []

bad = run_all(main)
print("VIOLATIONS:" if bad else "no violation")
for b in bad:
    print("  ", b)
sys.exit(1 if bad else 0)
