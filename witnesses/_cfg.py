"""Helper: run an async main() under the three loop configurations named in the properties."""
import asyncio
import anyio


def _eager_loop():
    loop = asyncio.new_event_loop()
    loop.set_task_factory(asyncio.eager_task_factory)
    return loop


CONFIGS = {
    "stock": {},
    "eager_task_factory": {"backend_options": {"loop_factory": _eager_loop}},
    "uvloop": {"backend_options": {"use_uvloop": True}},
}


def run_all(main):
    """main() returns (violated: bool, lines: list[str]). Returns True if violated anywhere."""
    bad = False
    for name, kw in CONFIGS.items():
        violated, lines = anyio.run(main, **kw)
        print(f"== {name}")
        for line in lines:
            print("   ", line)
        print("    ->", "VIOLATION" if violated else "ok")
        bad |= violated
    return bad
