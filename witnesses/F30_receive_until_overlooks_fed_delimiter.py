"""F30 (C16): data handed to BufferedByteReceiveStream.feed_data() while receive_until() is
waiting for the next chunk is never searched for the delimiter.

Exit 1 if receive_until() returns data that contains the delimiter, or raises
DelimiterNotFound although the delimiter is within max_bytes.

    PYTHONPATH=/repo/src /venv/bin/python witnesses/F30_receive_until_overlooks_fed_delimiter.py
"""
import sys

import anyio
from anyio import DelimiterNotFound, create_memory_object_stream
from anyio.streams.buffered import BufferedByteReceiveStream


async def scenario(max_bytes: int, fed: bytes, chunk: bytes) -> str:
    send, receive = create_memory_object_stream[bytes](1)
    stream = BufferedByteReceiveStream(receive)
    result = []

    async def reader() -> None:
        try:
            result.append(repr(await stream.receive_until(b"\n", max_bytes)))
        except DelimiterNotFound:
            result.append(f"DelimiterNotFound, buffer={bytes(stream.buffer)!r}")

    async with anyio.create_task_group() as tg:
        tg.start_soon(reader)
        await anyio.sleep(0.05)  # the reader is waiting for a chunk now
        stream.feed_data(fed)
        await send.send(chunk)

    return result[0]


async def main() -> int:
    a = await scenario(100, b"ab\ncd", b"ef\n")
    b = await scenario(5, b"a\n", b"bcd")
    print("receive_until(b'\\n', 100), fed b'ab\\ncd', chunk b'ef\\n' ->", a, "(expected b'ab')")
    print("receive_until(b'\\n', 5),   fed b'a\\n',    chunk b'bcd'   ->", b, "(expected b'a')")
    return 0 if a == "b'ab'" and b == "b'a'" else 1


sys.exit(anyio.run(main))
