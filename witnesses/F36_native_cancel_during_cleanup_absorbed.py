"""C05: a cancelled AnyIO scope swallows the cancellation of an ENCLOSING asyncio.timeout()
/ asyncio.TaskGroup when that native cancellation arrives while the task is still
unwinding the scope's own cancellation (a ``finally:`` / ``except:`` / ``__aexit__`` that
awaits, i.e. ordinary clean-up code).

Violated clause: "Consequently native asyncio constructs (asyncio.timeout,
asyncio.TaskGroup, Task.cancelling/uncancel) used around or after AnyIO scopes behave as
if the scope had never been cancelled".

No user-level Task.cancel() is involved and no particular loop iteration has to be hit:
the window is the whole duration of the clean-up code.

Root cause: _asyncio.py:365-381 is_anyio_cancellation() walks ``exc.__context__``.  The
native CancelledError raised inside the clean-up handler is implicitly chained
(``__context__``) to the scope's own CancelledError that is being handled, so it is
classified as "AnyIO's" and CancelScope.__exit__ (497-534) swallows it.

The script is schedule-deterministic (no wall-clock races): the timeout is expired with
Timeout.reschedule() and the sibling task is failed with an event, both from inside the
clean-up block.
"""
import asyncio
import sys

import anyio
from anyio import CancelScope

CONFIGS = {
    "stock": {},
    "uvloop": {"use_uvloop": True},
}


class Boom(Exception):
    pass


async def timeout_case(cancel_scope: bool) -> dict:
    """asyncio.timeout() around an AnyIO scope; the timeout expires during clean-up."""
    loop = asyncio.get_running_loop()
    task = asyncio.current_task()
    res = {"completed": False, "error": None, "expired": None, "left_scope": False}
    entry = task.cancelling()
    try:
        async with asyncio.timeout(None) as to:
            with CancelScope() as scope:
                if cancel_scope:
                    scope.cancel()
                try:
                    await anyio.sleep(0)  # the scope's own cancellation lands here
                finally:
                    # ordinary clean-up code
                    with CancelScope(shield=True):
                        to.reschedule(loop.time())  # the enclosing timeout expires NOW
                        await anyio.sleep(0.05)

            res["left_scope"] = True
            # The timeout has expired: this must not run to completion
            await anyio.sleep(0.2)
            res["completed"] = True
            res["expired"] = to.expired()
    except TimeoutError:
        res["error"] = "TimeoutError"

    res["cancelling_restored"] = task.cancelling() == entry
    return res


async def taskgroup_case(cancel_scope: bool) -> dict:
    """asyncio.TaskGroup around an AnyIO scope; a sibling fails during clean-up."""
    task = asyncio.current_task()
    res = {"completed": False, "error": None}
    fail_now = asyncio.Event()

    async def sibling() -> None:
        await fail_now.wait()
        raise Boom

    try:
        async with asyncio.TaskGroup() as group:
            group.create_task(sibling())
            with CancelScope() as scope:
                if cancel_scope:
                    scope.cancel()
                try:
                    await anyio.sleep(0)
                finally:
                    with CancelScope(shield=True):
                        fail_now.set()  # the sibling fails -> the group aborts its parent
                        await anyio.sleep(0.05)

            # The group is aborting: the parent must have been interrupted by now
            await anyio.sleep(0.2)
            res["completed"] = True
    except* Boom:
        res["error"] = "ExceptionGroup(Boom)"

    return res


async def anyio_taskgroup_case(cancel_scope: bool) -> dict:
    """
    asyncio.timeout() around an AnyIO *task group* (no clean-up code of the user in the
    host at all): the group is cancelled while its body is suspended, TaskGroup.__aexit__
    waits for a child that needs a moment to wind down, the timeout expires meanwhile.
    Same root cause: the native CancelledError is raised inside __aexit__, i.e. while the
    body's (AnyIO) CancelledError is being handled -> __context__ -> _asyncio.py:820-824
    keeps the AnyIO exception, and the group's scope swallows it.
    """
    loop = asyncio.get_running_loop()
    res = {"completed": False, "error": None}

    async def child(to: asyncio.Timeout) -> None:
        try:
            await anyio.sleep(1 if cancel_scope else 0.01)
        finally:
            with CancelScope(shield=True):
                await anyio.sleep(0.01)
                to.reschedule(loop.time())  # the enclosing timeout expires NOW
                await anyio.sleep(0.05)

    try:
        async with asyncio.timeout(None) as to:
            async with anyio.create_task_group() as tg:
                tg.start_soon(child, to)
                await anyio.sleep(0)
                if cancel_scope:
                    tg.cancel_scope.cancel()

                await anyio.sleep(0.005)

            await anyio.sleep(0.2)  # the timeout has expired: must not complete
            res["completed"] = True
            res["expired"] = to.expired()
    except TimeoutError:
        res["error"] = "TimeoutError"

    return res


async def main() -> bool:
    bad = False
    for name, case in (
        ("asyncio.timeout", timeout_case),
        ("asyncio.TaskGroup", taskgroup_case),
        ("asyncio.timeout [AnyIO task group inside]", anyio_taskgroup_case),
    ):
        reference = await case(False)  # the scope is never cancelled
        observed = await case(True)  # the scope is cancelled (AnyIO means only)
        print(f"  {name} around a scope that is NOT cancelled: {reference}")
        print(f"  {name} around a scope that IS cancelled    : {observed}")
        if observed["completed"] != reference["completed"] or observed["error"] != reference["error"]:
            print(f"  -> VIOLATION: {name} does not behave as if the scope had never been cancelled")
            bad = True

    return bad


violated = False
for cfg, options in CONFIGS.items():
    print(f"[{cfg}]")
    violated |= anyio.run(main, backend_options=options)

# eager task factory
def eager_loop() -> asyncio.AbstractEventLoop:
    loop = asyncio.new_event_loop()
    loop.set_task_factory(asyncio.eager_task_factory)
    return loop


print("[eager_task_factory]")
violated |= anyio.run(main, backend_options={"loop_factory": eager_loop})

print("VIOLATED" if violated else "ok")
sys.exit(1 if violated else 0)
