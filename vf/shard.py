"""Entry point of one shard subprocess: python -m vf.shard in.json out.json"""

from __future__ import annotations

import faulthandler
import importlib
import json
import os
import sys
import traceback

from .collect import Collector


def main() -> int:
    faulthandler.enable()
    inp, out = sys.argv[1], sys.argv[2]
    with open(inp) as fh:
        doc = json.load(fh)

    # third-party helper libs (icontract) live in /verif/.deps, appended so they can
    # never shadow the repository's own environment
    deps = os.path.join(os.environ.get("VERIF_DIR", "/verif"), ".deps")
    if deps not in sys.path:
        sys.path.append(deps)

    mod = importlib.import_module(f"vf.checks.{doc['property'].lower()}")
    col = Collector()
    from . import collect

    collect.ACTIVE.update(col=col, out=out)
    desc = doc["desc"]
    try:
        if "replay" in desc:
            mod.replay(desc["replay"], col)
        else:
            mod.run_shard(desc, col)
    except BaseException:
        traceback.print_exc()
        return 3

    with open(out, "w") as fh:
        json.dump(col.to_json(), fh, default=repr)

    return 0


if __name__ == "__main__":
    sys.exit(main())
