"""Task-tree / cancel-scope program interpreter with online monitors (C01-C07).

A *program* is JSON data (see gen_* in vf/treegen.py); this module interprets it against the
real anyio API on the virtual-time loop, keeps the independent shadow scope model
(vf/shadow.py) in lock-step, writes the API-boundary event log and evaluates the oracle
clauses of C01 (join), C02 (error accounting), C03 (level-triggered cancellation, bounded
progress), C04 (containment / absorption), C05 (no residue), C06 (deadlines, through the
time stamps of the same records) and C07 (start() handshake).  Every clause is tagged with
the property it belongs to; a check reports only its own clauses.

ops (body = list of ops):
  ["cp", k] ["sleep", d] ["forever"] ["wait", ev] ["set", ev]
  ["scope", sid, shield, deadline_rel|None, body]           with CancelScope(...)
  ["group", gid, children, body]                            async with create_task_group()
      child = {"tid":.., "how": "start_soon"|"create_task"|"start", "body": [...]}
  ["spawn", gid, child]                                     into an enclosing, visible group
  ["cancel", sid] ["cancel_task", tid] ["shield", sid, bool] ["deadline", sid, rel]
  ["raise", bid] ["return"]
  ["cleanup", body, k, after]    try body / except cancel: k shielded cps; "reraise"|"boom"
  ["catch_then", body, then]     try body / except cancel: then (unshielded); re-raise
  ["catch_then", body, then, "fresh"]  ... but raise a fresh CancelledError() instead
  ["catch_mix", body, bid]       try body / except cancel as c: raise ExceptionGroup([c, Boom])
  ["started", v]                 task_status.started(v)    (only inside a start child)
  ["await_handle", tid, how]     how = "wait" | "await"
agents: {"at": cycle | "t": vtime, "place": before|after, "do": <one of cancel / cancel_task
        / shield / deadline / set op>}
"""

from __future__ import annotations

import asyncio
import math
from typing import Any

from .collect import sig_of
from .loops import BusyLoop, Deadlock, VLoop, cycles_now, run, ticker_of
from .shadow import Node, Shadow

B_CYCLES = 4  # bound on delivery latency in loop cycles (measured maximum: 2)
RESCUE_T = 500.0  # virtual instant at which the rescue agent cancels the root scope


class Boom(Exception):
    def __init__(self, bid: Any) -> None:
        super().__init__(bid)
        self.bid = bid

    def __bool__(self) -> bool:
        # every third error raised by generated code is an object whose truth value is
        # False (an empty error collection looks like this): still an error like any other
        return not (isinstance(self.bid, int) and self.bid % 3 == 0)


def flatten(e: BaseException | None) -> list[BaseException]:
    if e is None:
        return []

    if isinstance(e, BaseExceptionGroup):
        out: list[BaseException] = []
        for x in e.exceptions:
            out += flatten(x)

        return out

    return [e]


class OpRec:
    __slots__ = ("tid", "kind", "seq", "cycle", "time", "eff_start", "eff_since_start",
                 "never", "avail_seq", "dur")  # fmt: skip


class Run:
    def __init__(self, program: dict) -> None:
        self.p = program
        self.viol: list[tuple[str, str, Any]] = []  # (property, clause, detail)
        self.windows: dict[str, int] = {}
        self.maxima: dict[str, float] = {}
        self.log: list[tuple] = []
        self.seq = 0
        self.nontrivial: set[str] = set()
        self.aborted: str | None = None
        self.viol_at_abort: int | None = None
        self.snap: dict = {}

    # ------------------------------------------------------------------ plumbing
    def V(self, prop: str, clause: str, detail: Any) -> None:  # noqa: N802
        if self.aborted is None:
            self.viol.append((prop, clause, detail))

    def window(self, name: str, n: int = 1) -> None:
        self.windows[name] = self.windows.get(name, 0) + n

    def maximum(self, name: str, v: float) -> None:
        if v > self.maxima.get(name, -math.inf):
            self.maxima[name] = v

    def cyc(self) -> int:
        return cycles_now() - self.c0

    def now(self) -> tuple[int, int, float]:
        return (self.seq, self.cyc(), self.loop.time() if self.virtual else 0.0)

    def ev(self, actor: Any, kind: str, *payload: Any) -> int:
        self.seq += 1
        self.log.append((self.seq, self.cyc(), self.vnow(), actor, kind, *payload))
        if self.ticker is not None:
            self.ticker.activity()

        return self.seq

    def vnow(self) -> float:
        """virtual time on VLoop; on uvloop (timer-free programs only) time plays no role"""
        return round(self.loop.time(), 6) if self.virtual else 0.0

    # ------------------------------------------------------------------ main
    async def main(self) -> None:
        import anyio
        from anyio import CancelScope

        self.anyio = anyio
        self.loop = asyncio.get_running_loop()
        self.virtual = isinstance(self.loop, VLoop)
        self.ticker = None if self.virtual else ticker_of(self.loop)
        self.c0 = cycles_now()
        self.sh = Shadow(self.now)
        if self.virtual:
            self.loop.clock_listeners.append(self.sh.clock_advanced)
            self.loop.abort_hooks.append(self.on_abort)
        else:
            self.ticker.abort_hooks.append(self.on_abort)
        self.scopes: dict[str, Any] = {}  # sid -> real CancelScope
        self.groups: dict[str, Any] = {}  # gid -> real TaskGroup
        self.ginfo: dict[str, dict] = {}  # gid -> monitor record
        self.handles: dict[Any, Any] = {}  # tid -> TaskHandle
        self.tinfo: dict[Any, dict] = {"root": {"tid": "root", "group": None, "ended": None,
                                                "steps": 0, "task": asyncio.current_task()}}  # fmt: skip
        self.events: dict[Any, Any] = {}
        self.event_set_seq: dict[Any, int] = {}
        self.inprog: dict[Any, OpRec] = {}
        self.exited_scopes: list[tuple[Any, str, int]] = []
        self.pending_start: dict[Any, Any] = {}  # child tid -> starter tid
        self.deferred_routed: dict[Any, Any] = {}  # start() child -> gid, see judge_group_exit
        self.agent_timers: list = []
        self.in_aexit: dict[Any, Any] = {}  # gid -> host tid, while the host is in __aexit__
        self.node_task: dict[str, Any] = {}  # handle node sid -> task id
        self.start_call_seq: dict[Any, int] = {}
        self.start_call_cycle: dict[Any, int] = {}
        self.sh.listeners.append(self.propagate_aexit_cancels)
        self.sh.listeners.append(self.propagate_start_cancels)
        self.sh.new_task("root", None)
        self.register_agents("before")
        root_node = self.sh.node("ROOT")
        root_exc: BaseException | None = None
        with CancelScope() as root_scope:
            self.scopes["ROOT"] = root_scope
            self.sh.enter("root", root_node)
            self.arm_rescue(first=True)
            self.register_agents("after")
            try:
                await self.run_ops("root", self.p["root"])
            except (Boom, TimeoutError) as e:
                root_exc = e
            except BaseExceptionGroup as e:
                root_exc = e
            except asyncio.CancelledError:
                self.ev("root", "root-cancelled")
                self.sh.exit("root", root_node)
                self.ev("root", "end", "cancelled")
                raise

            self.sh.exit("root", root_node)

        if self.rescue_handle is not None:
            self.rescue_handle.cancel()

        for th in self.agent_timers:
            th.cancel()

        self.finished = True
        self.ev("root", "end", "boom" if root_exc is not None else "ok")
        del root_exc
        # ---- quiescence: stragglers get a chance to show a step; the loop must go idle
        for _ in range(5):
            await asyncio.sleep(0)

        mine = asyncio.current_task()
        if self.virtual:
            self.check_exited_scopes(final=True)
            c_before = self.loop.cycles
            await asyncio.sleep(1000)
            idle_cycles = self.loop.cycles - c_before
            self.maximum("idle_cycles_during_long_sleep", idle_cycles)
            if idle_cycles > 4:
                self.V("C05", "loop-not-idle-after-program",
                       {"cycles_during_idle_sleep": idle_cycles})  # fmt: skip

            foreign = [repr(h) for h in self.loop.live_handles()]
            if foreign:
                self.V("C05", "live-handles-after-program", {"handles": foreign[:5]})

        left = [t.get_name() for t in asyncio.all_tasks()
                if t is not mine and not t.done() and t.get_name().startswith("t")]  # fmt: skip
        if left:
            self.V("C01", "task-alive-after-program", {"tasks": left})

        self.final_checks()

    finished = False
    rescues = 0
    virtual = True
    ticker = None

    def on_abort(self, reason: str) -> None:
        self.ev("loop", "ABORT", reason)
        self.snap = {
            "blocked": {tid: (r.kind, r.never, self.sh.task_eff(tid), r.cycle, self.cause_of(tid))
                        for tid, r in self.inprog.items()},  # fmt: skip
            "cycle": self.cyc(),
        }
        self.aborted = reason

    def rescue(self) -> None:
        """Late rescue: cancel the root scope and lower every shield, so that generated
        programs that block forever legitimately still terminate (and exercise delivery
        once more)."""
        if self.finished or self.aborted:
            return

        self.ev("agent", "rescue")
        self.window("rescue_fired")
        self.sh.cancel(self.sh.node("ROOT"), "rescue")
        self.scopes["ROOT"].cancel()
        for sid, sc in list(self.scopes.items()):
            n = self.sh.nodes.get(sid)
            if n is not None and n.shield and n.active:
                self.sh.set_shield(n, False)
                sc.shield = False

        # programs may raise shields again while they unwind: come back a few times
        self.rescues += 1
        if self.rescues < 8:
            self.arm_rescue(first=False)

    rescue_handle = None

    def arm_rescue(self, first: bool) -> None:
        if self.virtual:
            when = RESCUE_T if first else self.loop.time() + 50
            self.rescue_handle = self.loop.call_at(when, self.rescue)
        else:
            # no virtual time on uvloop: a cycle-counting chain (programs are timer-free)
            def tick(n: int) -> None:
                if self.finished or self.aborted:
                    return

                if n <= 0:
                    self.rescue()
                else:
                    self.loop.call_soon(tick, n - 1)

            self.loop.call_soon(tick, 300 if first else 120)

    # ------------------------------------------------------------------ agents
    def register_agents(self, place: str) -> None:
        for ag in self.p.get("agents", []):
            if ag.get("place", "before") != place:
                continue

            def fire(ag: dict = ag) -> None:
                if self.finished or self.aborted:
                    return

                self.ev("agent", "fire", ag["do"])
                self.do_sync_op("agent", ag["do"])

            if "t" in ag:
                self.agent_timers.append(self.loop.call_at(ag["t"], fire))
            else:
                self.loop.call_soon(self._agent_tick, ag["at"], fire)

    def _agent_tick(self, n: int, fire: Any) -> None:
        # (a method, not a closure: a nested function re-scheduling itself by name would
        # be rebound to the last agent's closure by the loop above)
        if self.finished or self.aborted:
            return

        if n <= 0:
            fire()
        else:
            self.loop.call_soon(self._agent_tick, n - 1, fire)

    def do_sync_op(self, who: Any, op: list) -> None:
        """cancel / cancel_task / shield / deadline / set -- performed on the shadow first
        (so the model is never late), then on the real object."""
        kind = op[0]
        if kind == "prepare":
            # create the scope object ahead of its `with` block (cancel-before-entry)
            if op[1] not in self.scopes:
                self.scopes[op[1]] = self.anyio.CancelScope()
                self.sh.node(op[1], "scope")
        elif kind == "cancel":
            sid = op[1]
            sc = self.scopes.get(sid)
            if sc is None:
                self.window("cancel_of_unknown_scope")
                return

            n = self.sh.node(sid)

            self.note_cancel_windows(n)
            self.sh.cancel(n)
            sc.cancel()
        elif kind == "cancel_task":
            h = self.handles.get(op[1])
            info = self.tinfo.get(op[1])
            if h is None or info is None:
                return

            if info["ended"] is None:
                # TaskHandle.cancel() is a no-op once the task has finished
                self.sh.cancel(self.sh.node(f"h{op[1]}", "handle"))
                self.window("handle_cancel_issued")

            h.cancel()
        elif kind == "shield":
            sid, val = op[1], op[2]
            sc = self.scopes.get(sid)
            if sc is None:
                return

            n = self.sh.node(sid)
            if n.active:
                self.window("shield_toggled_while_active")

            self.sh.set_shield(n, val)
            sc.shield = val
        elif kind == "deadline":
            sid, rel = op[1], op[2]
            sc = self.scopes.get(sid)
            if sc is None:
                return

            n = self.sh.node(sid)
            val = math.inf if rel is None else self.loop.time() + rel
            if n.cancelled:
                return  # (proviso of C06: no reassignment after the deadline fired)

            self.window("deadline_reassigned")
            self.sh.set_deadline(n, val)
            sc.deadline = val
        elif kind == "set":
            evt = self.get_event(op[1])
            if op[1] not in self.event_set_seq:
                self.event_set_seq[op[1]] = self.ev(who, "set", op[1])

            evt.set()

    def note_cancel_windows(self, n: Node) -> None:
        """which critical windows does this cancel() hit?"""
        if n.cancelled:
            return

        if not n.active:
            self.window("cancel_before_entry_or_after_exit")
            return

        for tid, st in self.sh.stacks.items():
            if n in st:
                rec = self.inprog.get(tid)
                if rec is not None:
                    self.window("cancel_while_blocked:" + rec.kind)
                    self.nontrivial.add("cancel-while-blocked")
                else:
                    self.window("cancel_while_runnable")

                if any(x.shield for x in st[st.index(n) + 1 :]):
                    self.window("cancel_while_behind_shield")

    def get_event(self, name: Any):  # noqa: ANN201
        if name not in self.events:
            self.events[name] = self.anyio.Event()

        return self.events[name]

    def propagate_start_cancels(self, only: Any = None, force: bool = False) -> None:
        """start(): when the caller of start() receives a cancellation while waiting, it
        cancels the child (through its handle) and waits for it.  Whether the caller really
        receives it is only certain once it has been effectively cancelled for two cycles
        without interruption (a shield raised in between withdraws it); when the child is
        observed to be interrupted earlier than that, the hand-over is accepted as soon as
        the caller is / was just effectively cancelled (``force``)."""
        for child, starter in list(self.pending_start.items()):
            if only is not None and child != only:
                continue

            n = self.sh.node(f"h{child}", "handle")
            if n.cancelled:
                continue

            since = self.sh.eff_since.get(starter)
            begin = self.start_call_cycle.get(child, 0)
            sure = since is not None and self.cyc() - max(since[1], begin) >= 2
            last = self.sh.last_eff.get(starter)
            lately = last is not None and last[0] >= self.start_call_seq.get(child, 0)
            if sure or (force and (since is not None or lately)):
                n.cancelled = True
                n.cancel_cause = "starter-cancelled"
                self.window("start_caller_cancelled_while_waiting")
                self.nontrivial.add("start-caller-cancelled")
                self.sh.touch()

    def propagate_aexit_cancels(self, only: Any = None, force: bool = False) -> None:
        """A host that receives a cancellation while it waits for its children in
        __aexit__ cancels the group's own scope (so the children go down even if a shield
        is put on the group afterwards).  Same certainty rule as for start()."""
        for gid, host in list(self.in_aexit.items()):
            if only is not None and gid != only:
                continue

            n = self.sh.node(f"g{gid}", "group")
            if n.cancelled:
                continue

            since = self.sh.eff_since.get(host)
            begin = self.ginfo[gid].get("aexit_cycle", 0)
            sure = since is not None and self.cyc() - max(since[1], begin) >= 2
            last = self.sh.last_eff.get(host)
            lately = last is not None and last[0] >= self.ginfo[gid].get("aexit_seq", 0)
            if force and not lately and since is None:
                # a cancelled scope above a shield that was raised only a moment ago: the
                # host may have been interrupted before the shield existed
                if any(m.cancelled for m in self.visible_chain(host)):
                    lately = True
                    self.window("tie_tolerated:host_cancelled_before_recent_shield")

            if sure or (force and (since is not None or lately)):
                n.fuzzy_until = self.cyc() + 1
                self.window("host_cancelled_while_waiting_in_aexit")
                self.sh.cancel(n, "host-cancelled-in-aexit")

    # ------------------------------------------------------------------ ops
    async def run_ops(self, tid: Any, ops: list, ctx: dict | None = None) -> None:
        from anyio import CancelScope
        from anyio.lowlevel import checkpoint

        anyio = self.anyio
        info = self.tinfo[tid]
        for op in ops:
            kind = op[0]
            info["steps"] += 1
            self.ev(tid, "step", kind)
            self.sh.note(tid)
            if self.pending_start:
                self.propagate_start_cancels()

            if self.in_aexit:
                self.propagate_aexit_cancels()

            self.check_exited_scopes()
            if kind == "cp":
                for _ in range(op[1]):
                    await self.blocking(tid, "cp", checkpoint)
            elif kind == "sleep":
                await self.blocking(tid, "sleep", lambda d=op[1]: anyio.sleep(d), dur=op[1])
            elif kind == "forever":
                await self.blocking(tid, "forever", anyio.sleep_forever, never=True)
            elif kind == "wait":
                evt = self.get_event(op[1])
                await self.blocking(tid, "wait", evt.wait, event=op[1])
            elif kind in ("set", "cancel", "cancel_task", "shield", "deadline", "prepare"):
                self.do_sync_op(tid, op)
            elif kind == "raise":
                b = Boom(op[1])
                self.ev(tid, "raise", op[1])
                raise b
            elif kind == "return":
                return
            elif kind == "scope":
                await self.run_scope(tid, op, ctx)
            elif kind == "tscope":
                # ["tscope", sid, helper, value, shield, body]; helper in move_on_after /
                # move_on_at / fail_after / fail_at (value = delay resp. offset from now)
                await self.run_scope(tid, ["scope", op[1], op[4], op[3], op[5]], ctx, helper=op[2])
            elif kind == "probe":
                got = self.anyio.current_effective_deadline()
                want = self.sh.effective_deadline(tid)
                self.window("effective_deadline_probed")
                if got != want and self.recent_change(self.sh.top(tid)):
                    self.window("tie_tolerated:probe_during_inflight_change")
                elif got != want:
                    self.V("C06", "current_effective_deadline-wrong",
                           {"tid": tid, "got": got, "expected": want, "time": self.loop.time(),
                            "chain": self.chain_of(self.sh.top(tid))})  # fmt: skip
            elif kind == "group":
                await self.run_group(tid, op, ctx)
            elif kind == "spawn":
                self.spawn(tid, op[1], op[2])
            elif kind == "startcall":
                await self.start_child(tid, op[1], op[2])
            elif kind == "cleanup":
                _, body, k, after = op
                try:
                    await self.run_ops(tid, body, ctx)
                except asyncio.CancelledError:
                    self.ev(tid, "cleanup-begin")
                    n = self.sh.node(f"cl{self.seq}", "scope", shield=True)
                    with CancelScope(shield=True):
                        self.sh.enter(tid, n)
                        try:
                            for _ in range(k):
                                await self.blocking(tid, "cp", checkpoint)
                        finally:
                            self.sh.exit(tid, n)

                    self.ev(tid, "cleanup-end")
                    if after == "boom":
                        b = Boom(("cleanup", tid, self.seq))
                        self.ev(tid, "raise", b.bid)
                        raise b from None

                    raise
            elif kind == "catch_then":
                _, body, then, *how = op
                try:
                    await self.run_ops(tid, body, ctx)
                except asyncio.CancelledError:
                    self.ev(tid, "caught-cancel")
                    self.window("cancel_caught_then_continued")
                    await self.run_ops(tid, then, ctx)
                    if how == ["fresh"]:
                        # what some frameworks do: a NEW CancelledError, chained to the
                        # caught one only implicitly (__context__); AnyIO still has to
                        # recognise its own cancellation in it at the scope's exit
                        self.window("cancellation_replaced_by_a_fresh_implicitly_chained_one")
                        raise asyncio.CancelledError()  # noqa: B904

                    raise
            elif kind == "catch_mix":
                # re-raise a caught cancellation inside a synthetic exception group next to
                # an ordinary error: scope exits must strip exactly the cancellation
                _, body, bid = op
                try:
                    await self.run_ops(tid, body, ctx)
                except asyncio.CancelledError as c:
                    b = Boom(("mix", bid))
                    self.ev(tid, "raise-mixed", bid)
                    self.window("mixed_group_raised")
                    raise BaseExceptionGroup("mixed", [c, b]) from None
            elif kind == "started":
                self.do_started(tid, op[1], ctx)
            elif kind == "hold":
                await self.hold_native_requests(tid, op[1])
            elif kind == "cic":
                # what uncontended acquire() calls etc. start with: raises if the scope is
                # effectively cancelled, returns at once otherwise - and must not spin when
                # the cancellation it is waiting for will never be delivered (a shield went
                # up in the meantime)
                from anyio.lowlevel import checkpoint_if_cancelled

                for _ in range(op[1]):
                    self.window("checkpoint_if_cancelled")
                    await self.blocking(tid, "cic", checkpoint_if_cancelled)
            elif kind == "scp":
                # the yield that operations which must not be interrupted any more use
                # (uncontended acquire, immediately completing stream operation, ...):
                # whatever gets cancelled while the task is suspended in it, it returns
                from anyio.lowlevel import cancel_shielded_checkpoint

                for _ in range(op[1]):
                    self.window("shielded_checkpoint")
                    try:
                        await cancel_shielded_checkpoint()
                    except asyncio.CancelledError:
                        self.V("C04", "interrupted-inside-cancel_shielded_checkpoint",
                               {"tid": tid, "chain": self.chain_of(self.sh.top(tid))})  # fmt: skip
                        raise
            elif kind == "await_handle":
                await self.await_handle(tid, op[1], op[2])
            else:
                raise AssertionError(op)

    async def hold_native_requests(self, tid: Any, n: int) -> None:
        """the task cancels itself natively, catches the CancelledError and goes on *without*
        uncancel() - what asyncio.timeout() / asyncio.TaskGroup do between their cancel() and
        their exit.  From here on Task.cancelling() has a non-zero baseline, which makes a
        scope or group exit that calls uncancel() too often visible (at a baseline of 0 the
        count is floored and the surplus disappears).  Skipped when a cancellation is under
        way for the task: the generated code never swallows one of AnyIO's."""
        task = asyncio.current_task()
        for _ in range(n):
            if task._must_cancel or self.sh.task_eff(tid):  # type: ignore[attr-defined]
                self.window("hold_skipped_cancellation_under_way")
                return

            task.cancel()
            try:
                await asyncio.sleep(0)
            except asyncio.CancelledError as e:
                if e.args and isinstance(e.args[0], str) and e.args[0].startswith("Cancelled via"):
                    raise

                self.ev(tid, "native-request-held", task.cancelling())
                self.window("native_request_held")

    async def blocking(self, tid: Any, kind: str, fn, never: bool = False,  # noqa: ANN001
                       event: Any = None, dur: float | None = None,
                       allow_exc: bool = False) -> None:  # fmt: skip
        rec = OpRec()
        rec.tid, rec.kind, rec.never, rec.dur = tid, kind, never, dur
        rec.seq, rec.cycle, rec.time = self.seq, self.cyc(), self.loop.time()
        rec.eff_start = self.sh.task_eff(tid)
        rec.eff_since_start = self.sh.eff_since.get(tid)
        rec.avail_seq = None
        if kind == "wait" or kind.startswith("handle."):
            rec.never = False
            rec.avail_seq = event

        self.inprog[tid] = rec
        try:
            await fn()
        except asyncio.CancelledError:
            self.inprog.pop(tid, None)
            self.ev(tid, "op-cancelled", kind)
            self.judge_cancelled(rec)
            raise
        except BaseException as e:  # noqa: BLE001
            self.inprog.pop(tid, None)
            if not allow_exc:
                self.V("C03", "exc!", {"op": kind, "exc": repr(e), "tid": tid})
            else:
                self.judge_completed(rec)

            raise
        else:
            self.inprog.pop(tid, None)
            self.judge_completed(rec)

    def visible_chain(self, tid: Any) -> list:
        """the scopes whose cancellation is (or, for a shield switched on within the last
        3 cycles, a moment ago still was) visible to the task"""
        chain: list = []
        n = self.sh.top(tid)
        cyc = self.cyc()
        behind: int | None = None  # cycle in which the nearest recent shield below went up
        while n is not None:
            # beyond a shield that went up a moment ago, only what was cancelled before (or
            # in the cycle in which) the shield went up can still have reached the task
            if behind is None or not n.cancelled or n.cancelled_at <= behind:
                chain.append(n)

            if n.shield:
                if cyc - n.shield_at > 3:
                    break

                behind = n.shield_at if behind is None else min(behind, n.shield_at)

            n = n.parent

        return chain

    def refresh_inferred(self, tid: Any, depth: int = 0) -> None:
        """A task was observed to be interrupted although the model does not (yet) see its
        scope as effectively cancelled: apply the inferred hand-overs that may explain it
        (caller of start() cancelled; host cancelled while waiting in __aexit__)."""
        if self.sh.task_eff(tid) or depth > 6:
            return

        if tid in self.pending_start:
            # the caller of start() may itself only be reachable through an inferred cancel
            self.refresh_inferred(self.pending_start[tid], depth + 1)
            self.propagate_start_cancels(only=tid, force=True)

        if not self.sh.task_eff(tid):
            # every scope whose cancellation would be visible to the task: its own stack and
            # the ancestors up to (and including) the first shielded one
            chain = self.visible_chain(tid)
            if any(m.cancelled for m in chain):
                # a really cancelled scope sits just beyond a shield that went up a moment
                # ago: the interruption is a delivery committed before the shield existed
                # (judged as that tie by the caller) and needs no inferred hand-over
                return

            for n in chain:
                if n.kind == "group" and n.sid[1:].isdigit() and int(n.sid[1:]) in self.in_aexit:
                    self.refresh_inferred(self.in_aexit[int(n.sid[1:])], depth + 1)
                    self.propagate_aexit_cancels(only=int(n.sid[1:]), force=True)
                elif n.kind == "handle" and self.node_task.get(n.sid) in self.pending_start:
                    c = self.node_task[n.sid]
                    self.refresh_inferred(self.pending_start[c], depth + 1)
                    self.propagate_start_cancels(only=c, force=True)

    def judge_cancelled(self, rec: OpRec) -> None:
        tid = rec.tid
        self.refresh_inferred(tid)
        seq, cyc, t = self.now()
        eff_now = self.sh.task_eff(tid)
        last = self.sh.last_eff.get(tid)
        if not eff_now:
            if last is not None and cyc - last[1] <= 2 and last[0] >= rec.seq - 1:
                self.window("tie_tolerated:cancel_delivered_while_scope_left_or_shielded")
            elif last is not None and cyc - last[1] <= 2:
                self.window("tie_tolerated:cancel_delivered_while_scope_left_or_shielded")
            elif any(m.cancelled for m in self.visible_chain(tid)):
                # the only thing between the task and a cancelled scope is a shield that
                # was switched on within the last 3 cycles: the delivery was in flight
                self.window("tie_tolerated:cancel_delivered_before_recent_shield")
            else:
                self.V("C04", "cancelled-while-scope-not-effectively-cancelled",
                       {"tid": tid, "op": rec.kind, "cycle": cyc,
                        "stack": [n.sid for n in self.sh.stacks.get(tid, [])]})  # fmt: skip
                return

        since = self.sh.eff_since.get(tid) or last
        if since is not None:
            lat = cyc - max(rec.cycle, since[1])
            cause0 = self.cause_of(tid)
            if cause0 in ("member-failed", "member-cancelled", "starter-cancelled",
                          "host-cancelled-in-aexit", "body-failed"):  # fmt: skip
                # the model infers these cancels at the earliest instant they can happen;
                # the implementation performs them up to two cycles later
                lat -= 2
                self.maximum("cancel_latency_cycles_inferred_cause", lat)
            else:
                self.maximum("cancel_latency_cycles", lat)

            if lat > B_CYCLES:
                self.V("C03", "cancellation-delivered-late",
                       {"tid": tid, "op": rec.kind, "latency_cycles": lat})  # fmt: skip
                if cause0 in ("member-failed", "body-failed"):
                    self.V("C02", "remaining-task-not-cancelled-after-failure",
                           {"tid": tid, "op": rec.kind, "latency_cycles": lat})  # fmt: skip

            cause = self.cause_of(tid)
            # delivery costs loop cycles, never virtual time: an operation that was already
            # in progress is interrupted at the very instant its scope became cancelled
            if rec.time <= since[2] and t != since[2] and eff_now:
                self.V("C06" if cause == "deadline" else "C03", "interrupted-at-wrong-time",
                       {"tid": tid, "op": rec.kind, "at": t, "cancelled_at": since[2],
                        "cause": cause})  # fmt: skip

            if cause == "deadline":
                self.nontrivial.add("interrupted-by-deadline")

        self.window("op_interrupted:" + rec.kind)

    def inferred_during(self, tid: Any, rec: OpRec) -> bool:
        n = self.sh.top(tid)
        while n is not None:
            if n.cancelled:
                return n.fuzzy_until >= rec.cycle

            if n.shield:
                return False

            n = n.parent

        return False

    def cause_of(self, tid: Any) -> str | None:
        n = self.sh.top(tid)
        while n is not None:
            if n.cancelled:
                return n.cancel_cause

            if n.shield:
                return None

            n = n.parent

        return None

    def judge_completed(self, rec: OpRec) -> None:
        tid = rec.tid
        seq, cyc, t = self.now()
        if rec.never:
            self.V("C03", "blocked-operation-returned-without-cause", {"tid": tid, "op": rec.kind})
            return

        avail: int | None = None
        if rec.kind == "wait":
            avail = self.event_set_seq.get(rec.avail_seq)
        elif rec.kind.startswith("handle."):
            avail = self.tinfo[rec.avail_seq[1]]["ended"]

        if rec.avail_seq is not None and avail is None:
            self.V("C03" if rec.kind == "wait" else "C01",
                   "blocked-operation-returned-without-cause",
                   {"tid": tid, "op": rec.kind, "waiting_for": rec.avail_seq})  # fmt: skip
            return

        since_start = rec.eff_since_start
        if rec.eff_start and since_start is not None and self.sh.eff_since.get(tid) != since_start:
            # the scope stopped being effectively cancelled while the operation was in
            # progress (a shield went up before the delivery ran): completing is legitimate
            self.window("tie_tolerated:cancellation_withdrawn_during_operation")
        elif rec.eff_start and since_start is not None and self.inferred_during(tid, rec):
            # the scope is (still) effectively cancelled only through a cancel that the
            # model inferred while the operation was in progress and that the
            # implementation performs a cycle later (e.g. after this task's wake-up)
            self.window("tie_tolerated:inferred_cancel_became_real_after_wakeup")
        elif rec.eff_start and since_start is not None and since_start[0] < rec.seq:
            # entered while the scope was already effectively cancelled: must raise,
            # unless what it waited for only became available after it started (tie)
            if avail is not None and avail > rec.seq:
                self.window("tie_tolerated:event_set_after_wait_started_in_cancelled_scope")
            else:
                self.V("C03", "completed-normally-in-cancelled-scope",
                       {"tid": tid, "op": rec.kind, "started_cycle": rec.cycle,
                        "cancelled_since_cycle": since_start[1], "cycle": cyc})  # fmt: skip
                if self.cause_of(tid) == "deadline":
                    self.V("C06", "deadline-missed:operation-completed-after-expiry",
                           {"tid": tid, "op": rec.kind, "time": t})  # fmt: skip
                if self.cause_of(tid) in ("member-failed", "body-failed"):
                    self.V("C02", "remaining-task-not-cancelled-after-failure",
                           {"tid": tid, "op": rec.kind, "cause": self.cause_of(tid)})  # fmt: skip

            return

        # started before the scope became effectively cancelled
        since = self.sh.eff_since.get(tid)
        if since is not None and rec.kind == "sleep":
            if since[2] < t and since[2] >= rec.time:
                self.V("C03", "sleep-not-interrupted",
                       {"tid": tid, "slept_until": t, "cancelled_at": since[2]})  # fmt: skip
                if self.cause_of(tid) == "deadline":
                    self.V("C06", "deadline-missed:sleep-not-interrupted",
                           {"tid": tid, "slept_until": t, "deadline_reached_at": since[2]})  # fmt: skip
            elif since[2] == t:
                self.window("tie_tolerated:sleep_ended_at_cancel_instant")

        if since is not None and rec.avail_seq is not None:
            self.window("tie_tolerated:wait_completed_after_cancel")

    # ------------------------------------------------------------------ scopes
    async def run_scope(self, tid: Any, op: list, ctx: dict | None, helper: str | None = None) -> None:
        import anyio
        from anyio import CancelScope

        _, sid, shield, drel, body = op
        t0 = self.loop.time()
        deadline = math.inf if drel is None else t0 + drel
        n = self.sh.node(sid, "scope")
        n.shield, n.deadline = shield, deadline
        sc = self.scopes.get(sid)
        pre_cancelled = False
        cm = None
        if helper is not None:
            if helper == "move_on_after":
                cm = anyio.move_on_after(drel, shield=shield)
            elif helper == "move_on_at":
                cm = anyio.move_on_at(None if drel is None else t0 + drel, shield=shield)
            elif helper == "fail_after":
                cm = anyio.fail_after(drel, shield=shield)
            else:
                cm = anyio.fail_at(None if drel is None else t0 + drel, shield=shield)

            self.window("timeout_helper:" + helper)
        elif sc is None:
            sc = CancelScope(shield=shield, deadline=deadline)
            self.scopes[sid] = sc
        else:
            pre_cancelled = True  # created earlier by a "prepare" (cancel before entry)
            sc.shield, sc.deadline = shield, deadline

        task = asyncio.current_task()
        cancelling_before = task.cancelling()
        exc: BaseException | None = None
        propagated = True
        self.ev(tid, "scope-enter", sid)
        try:
            with (cm if cm is not None else sc) as entered:
                sc = entered
                self.scopes[sid] = sc
                self.sh.enter(tid, n)
                try:
                    await self.run_ops(tid, body, ctx)
                except BaseException as e:
                    exc = e
                    raise
                finally:
                    # expectation is computed at the exit instant, before __exit__ runs
                    expect_absorb = n.cancelled and not self.sh.parent_visible(n)
                    self.sh.exit(tid, n)
                    self.ev(tid, "scope-exit", sid, type(exc).__name__ if exc is not None else None)

            propagated = False
        except BaseException as e2:
            e2 = self.judge_timeout_helper(tid, sid, sc, n, exc, e2, expect_absorb, helper)
            self.judge_scope_exit(tid, sid, sc, n, exc, e2, expect_absorb, cancelling_before)
            raise
        else:
            self.judge_timeout_helper(tid, sid, sc, n, exc, None, expect_absorb, helper)
            self.judge_scope_exit(tid, sid, sc, n, exc, None, expect_absorb, cancelling_before)
        finally:
            self.exited_scopes.append((sc, sid, self.cyc()))
            del exc

        del propagated, pre_cancelled

    def judge_timeout_helper(self, tid, sid, sc, n: Node, exc, out_exc, expect_absorb,  # noqa: ANN001
                             helper):  # noqa: ANN201  # fmt: skip
        """C06: fail_after/fail_at raise TimeoutError exactly when their own deadline
        interrupted the block; move_on_* set cancelled_caught exactly in that case (the
        latter is the generic absorb rule).  Returns the exception to hand to the generic
        exit oracle (a TimeoutError raised by the helper stands for "absorbed")."""
        if helper is None:
            return out_exc

        carried_cancel = any(isinstance(x, asyncio.CancelledError) for x in flatten(exc))
        fired = n.cancelled and n.cancel_cause == "deadline"
        now = self.loop.time()
        only_cancel = carried_cancel and all(
            isinstance(x, asyncio.CancelledError) for x in flatten(exc)
        )
        # (if another exception accompanies the cancellation, that exception leaves the
        # block and the helper never gets to raise TimeoutError)
        expect_timeout = (
            helper.startswith("fail") and only_cancel and expect_absorb and now >= n.deadline
        )
        got_timeout = isinstance(out_exc, TimeoutError) and not isinstance(exc, TimeoutError)
        if helper.startswith("fail"):
            self.window("fail_helper_exit")
            if got_timeout != expect_timeout:
                if self.recent_change(n):
                    self.window("tie_tolerated:absorb_decision_during_inflight_change")
                else:
                    self.V("C06", "TimeoutError-differs-from-reference",
                           {"sid": sid, "helper": helper, "raised_TimeoutError": got_timeout,
                            "expected": expect_timeout, "deadline": n.deadline, "now": now,
                            "fired": fired})  # fmt: skip

            if got_timeout:
                self.nontrivial.add("timeout-raised")
                return None  # for the generic oracle: the cancellation was absorbed
        elif carried_cancel and expect_absorb and fired:
            self.nontrivial.add("moved-on")

        return out_exc

    def judge_scope_exit(self, tid, sid, sc, n: Node, exc, out_exc, expect_absorb,  # noqa: ANN001
                         cancelling_before) -> None:  # fmt: skip
        """C04 (b)-(e), C05 (a), C06 flags -- exc = what the body raised, out_exc = what
        came out of the with statement"""
        leaves = flatten(exc)
        cancel_leaves = [x for x in leaves if isinstance(x, asyncio.CancelledError)]
        other_leaves = [x for x in leaves if not isinstance(x, asyncio.CancelledError)]
        out_leaves = flatten(out_exc)
        # (d) exceptions other than cancellations always pass through, exactly once
        if sorted(map(id, other_leaves)) != sorted(
            id(x) for x in out_leaves if not isinstance(x, asyncio.CancelledError)
        ):
            self.V("C04", "non-cancellation-exception-altered-at-scope-exit",
                   {"sid": sid, "in": [repr(x) for x in leaves], "out": [repr(x) for x in out_leaves]})  # fmt: skip

        out_cancels = [x for x in out_leaves if isinstance(x, asyncio.CancelledError)]
        if cancel_leaves:
            absorbed = not out_cancels
            self.window("scope_exit_with_cancellation")
            if absorbed != expect_absorb:
                if self.recent_change(n):
                    self.window("tie_tolerated:absorb_decision_during_inflight_change")
                else:
                    self.V("C04", "absorb-decision-wrong",
                           {"sid": sid, "absorbed": absorbed, "expected": expect_absorb,
                            "cancelled": n.cancelled, "shield": n.shield,
                            "parent_visible": self.sh.parent_visible(n),
                            "chain": self.chain_of(n)})  # fmt: skip

            if sc.cancelled_caught != absorbed:
                self.V("C04", "cancelled_caught-differs-from-absorption",
                       {"sid": sid, "cancelled_caught": sc.cancelled_caught, "absorbed": absorbed})  # fmt: skip

            if absorbed:
                self.nontrivial.add("absorbed")
        else:
            if sc.cancelled_caught:
                self.V("C04", "cancelled_caught-without-cancellation", {"sid": sid})

            if out_cancels:
                self.V("C04", "cancellation-invented-at-scope-exit", {"sid": sid})

        # C05 (a): native cancellation-request count restored once nothing encloses us
        task = asyncio.current_task()
        if self.clean_region(tid):
            c = task.cancelling()
            self.window("residue_checked_at_scope_exit")
            if c != cancelling_before:
                self.V("C05", "cancelling-count-not-restored",
                       {"sid": sid, "before": cancelling_before, "after": c})  # fmt: skip

    @staticmethod
    def chain_of(n: Node | None) -> list:
        out = []
        while n is not None:
            out.append([n.sid, "cancelled" if n.cancelled else "", "shield" if n.shield else "",
                        n.cancel_cause])  # fmt: skip
            n = n.parent

        return out

    def clean_region(self, tid: Any) -> bool:
        """No scope still enclosing the task is cancelled (shielded or not -- a cancelled
        ancestor legitimately keeps the native cancellation requests it issued until its
        own exit).  (An earlier version also skipped tasks that had been effectively
        cancelled a cycle ago; that hid the exit of every cancelled outermost scope, i.e.
        exactly where a lost uncancel() shows -- seeded change C05.)"""
        n = self.sh.top(tid)
        while n is not None:
            if n.cancelled:
                return False

            n = n.parent

        return True

    def recent_change(self, n: Node) -> bool:
        """was a shield / cancel state on n's chain changed in this or the previous cycle
        (delivery possibly in flight)?"""
        cyc = self.cyc()
        m: Node | None = n
        while m is not None:
            if m.fuzzy_until >= cyc:
                return True

            # inferred cancels whose hand-over may or may not have happened yet
            if m.kind == "handle" and not m.cancelled:
                child = self.node_task.get(m.sid)
                if child in self.pending_start:
                    last = self.sh.last_eff.get(self.pending_start[child])
                    if last is not None and last[0] >= self.start_call_seq.get(child, 0):
                        return True

            if m.kind == "group" and not m.cancelled and int(m.sid[1:]) in self.in_aexit:
                g = self.ginfo[int(m.sid[1:])]
                last = self.sh.last_eff.get(g["host"])
                if last is not None and last[0] >= g.get("aexit_seq", 0):
                    return True

            m = m.parent

        for e in reversed(self.log):
            if cyc - e[1] > 1:
                break

            if e[4] == "fire" or (e[4] == "step" and e[5] in ("shield", "cancel", "cancel_task")):
                return True

        return False

    def recently_eff(self, tid: Any) -> bool:
        last = self.sh.last_eff.get(tid)
        return last is not None and self.cyc() - last[1] <= 1

    def check_exited_scopes(self, final: bool = False) -> None:
        """C05 (c): no timer or delivery callback of a scope keeps running after exit
        (one more cycle is granted: a queued delivery callback finds no task and stops)."""
        if not self.virtual:
            self.exited_scopes = []
            return  # (the ready queue / timer heap of uvloop cannot be inspected)

        cyc = self.cyc()
        keep = []
        for sc, sid, at in self.exited_scopes:
            if cyc - at < 3 and not final:
                keep.append((sc, sid, at))
                continue

            hs = self.loop.handles_of(sc)
            self.window("exited_scope_handles_checked")
            if hs and (cyc - at >= 3):
                self.V("C05", "scope-callback-alive-after-exit",
                       {"sid": sid, "handles": [repr(h) for h in hs][:3], "cycles_after": cyc - at})  # fmt: skip
            elif hs:
                keep.append((sc, sid, at))

        self.exited_scopes = keep

    # ------------------------------------------------------------------ groups
    async def run_group(self, tid: Any, op: list, ctx: dict | None) -> None:
        anyio = self.anyio
        _, gid, children, body = op
        gname = f"g{gid}"
        n = self.sh.node(gname, "group")
        g = {"gid": gid, "host": tid, "members": [], "body_exc": None, "exited": None,
             "start_routed": set(), "failed_at": None}  # fmt: skip
        self.ginfo[gid] = g
        block_exc: BaseException | None = None
        task = asyncio.current_task()
        cancelling_before = task.cancelling()
        try:
            async with anyio.create_task_group() as tg:
                self.groups[gid] = tg
                self.scopes[gname] = tg.cancel_scope
                self.sh.enter(tid, n)
                self.ev(tid, "group-enter", gid)
                try:
                    for ch in children:
                        if ch["how"] == "start":
                            await self.start_child(tid, gid, ch)
                        else:
                            self.spawn(tid, gid, ch)

                    await self.run_ops(tid, body, ctx)
                except BaseException as e:
                    g["body_exc"] = e
                    self.ev(tid, "group-body-exc", gid, type(e).__name__)
                    # __aexit__ cancels the group's scope when the body raised
                    self.sh.cancel(n, "body-failed")
                    raise
                finally:
                    self.ev(tid, "group-aexit-begin", gid)
                    g["aexit_seq"] = self.seq
                    g["aexit_cycle"] = self.cyc()
                    self.in_aexit[gid] = tid
                    self.propagate_aexit_cancels()
                    if any(self.tinfo[m]["ended"] is None for m in g["members"]):
                        self.nontrivial.add("aexit-with-unfinished-children")
        except BaseException as e:
            block_exc = e
        finally:
            expect_absorb = n.cancelled and not self.sh.parent_visible(n)
            if self.sh.top(tid) is n:
                self.sh.exit(tid, n)

        self.in_aexit.pop(gid, None)
        g["exited"] = self.ev(tid, "group-exit", gid, type(block_exc).__name__ if block_exc is not None else None)
        self.exited_scopes.append((tg.cancel_scope, gname, self.cyc()))
        try:
            self.judge_group_exit(g, n, block_exc, expect_absorb, cancelling_before, tid)
        finally:
            if block_exc is not None:
                try:
                    raise block_exc
                finally:
                    del block_exc

    def new_task_record(self, tid: Any, gid: Any, how: str) -> dict:
        info = {"tid": tid, "group": gid, "how": how, "ended": None, "final": None,
                "retval": None, "steps": 0, "started_called": None, "started_value": None}  # fmt: skip
        self.tinfo[tid] = info
        self.ginfo[gid]["members"].append(tid)
        return info

    def make_child(self, gid: Any, ch: dict):  # noqa: ANN201
        tid = ch["tid"]
        info = self.new_task_record(tid, gid, ch["how"])
        base = self.sh.node(f"g{gid}", "group")
        hnode = self.sh.node(f"h{tid}", "handle")
        self.node_task[hnode.sid] = tid

        async def child_main(*, task_status=None) -> Any:  # noqa: ANN001
            info["task"] = asyncio.current_task()
            self.sh.new_task(tid, base)
            self.sh.enter(tid, hnode)  # the TaskHandle's own scope
            self.ev(tid, "start")
            ctx = {"task_status": task_status, "tid": tid}
            try:
                await self.run_ops(tid, ch["body"], ctx)
            except BaseException as e:
                info["final"] = e
                info["ended"] = self.ev(tid, "end", "cancelled" if isinstance(
                    e, asyncio.CancelledError) else "raised", repr(e)[:80])  # fmt: skip
                if not isinstance(e, asyncio.CancelledError):
                    # a failing member makes the task group cancel its scope (one cycle
                    # later, when the done callback runs) -- unless a pending start()
                    # routes the exception to the caller instead
                    self.on_child_failed(tid, gid, e)
                elif not (hnode.cancelled and not self.sh.parent_visible(hnode)):
                    # the cancellation is not absorbed by the task handle's own scope, so
                    # the asyncio task ends cancelled and the group cancels its own scope
                    # (this matters when the cancellation had been delivered from outside
                    # before a shield went up on the group)
                    if tid not in self.pending_start:
                        if not self.sh.eff(base):
                            self.window("member_cancelled_from_outside_a_shielded_group")

                        if not base.cancelled:
                            base.fuzzy_until = self.cyc() + 1

                        self.sh.cancel(base, "member-cancelled")

                raise
            else:
                rv = ("ret", tid)
                info["retval"] = rv
                info["ended"] = self.ev(tid, "end", "returned")
                return rv
            finally:
                self.sh.end_task(tid)

        return child_main

    def on_child_failed(self, tid: Any, gid: Any, e: BaseException) -> None:
        info = self.tinfo[tid]
        g = self.ginfo[gid]
        if tid in self.pending_start and info["started_called"] is None:
            starter = self.pending_start[tid]
            if not self.sh.node(f"h{tid}", "handle").cancelled or not self.sh.task_eff(starter):
                # start() has not been abandoned: the exception goes to its caller (whether
                # it really did is decided by what start() raises -- judge_start_raised)
                return

        if g["failed_at"] is None:
            g["failed_at"] = self.seq

        self.nontrivial.add("member-failed")
        if any(self.tinfo[m]["ended"] is None for m in g["members"] if m != tid):
            self.window("member_failed_with_live_siblings")

        gn = self.sh.node(f"g{gid}", "group")
        if not gn.cancelled:
            gn.fuzzy_until = self.cyc() + 1

        self.sh.cancel(gn, "member-failed")

    def spawn(self, tid: Any, gid: Any, ch: dict) -> None:
        tg = self.groups.get(gid)
        g = self.ginfo.get(gid)
        if tg is None or g is None or g["exited"] is not None:
            self.window("spawn_into_unavailable_group")
            return

        gnode = self.sh.node(f"g{gid}", "group")
        if gnode.cancelled:
            self.window("spawn_after_group_cancelled")

        child_main = self.make_child(gid, ch)
        self.ev(tid, "spawn", ch["tid"], ch["how"])
        try:
            if ch["how"] == "create_task":
                h = tg.create_task(child_main(), name=f"t{ch['tid']}")
            else:
                h = tg.start_soon(child_main, name=f"t{ch['tid']}")
        except RuntimeError as e:
            # the group is no longer active (host already past __aexit__)
            self.ev(tid, "spawn-refused", ch["tid"], repr(e)[:60])
            self.ginfo[gid]["members"].remove(ch["tid"])
            self.tinfo.pop(ch["tid"], None)
            return

        self.handles[ch["tid"]] = h

    # ------------------------------------------------------------------ start()
    async def start_child(self, tid: Any, gid: Any, ch: dict) -> None:
        tg = self.groups.get(gid)
        g = self.ginfo.get(gid)
        if tg is None or g is None or g["exited"] is not None:
            return

        child = ch["tid"]
        child_main = self.make_child(gid, ch)
        info = self.tinfo[child]
        self.pending_start[child] = tid
        self.start_call_seq[child] = self.seq
        self.start_call_cycle[child] = self.cyc()
        gnode = self.sh.node(f"g{gid}", "group")
        g_cancelled_before = gnode.cancelled
        self.ev(tid, "start-call", child)
        rec = OpRec()
        rec.tid, rec.kind, rec.never, rec.dur = tid, "start", False, None
        rec.seq, rec.cycle, rec.time = self.seq, self.cyc(), self.loop.time()
        rec.eff_start = self.sh.task_eff(tid)
        rec.eff_since_start = self.sh.eff_since.get(tid)
        rec.avail_seq = None
        self.inprog[tid] = rec
        want_handle = ch.get("return_handle", False)
        try:
            if want_handle:
                res = await tg.start(child_main, name=f"t{child}", return_handle=True)
            else:
                res = await tg.start(child_main, name=f"t{child}")
        except BaseException as e:
            self.inprog.pop(tid, None)
            self.pending_start.pop(child, None)
            self.ev(tid, "start-raised", child, type(e).__name__)
            self.judge_start_raised(tid, gid, child, e, g_cancelled_before, rec.seq)
            if self.deferred_routed.pop(child, None) is not None:
                lost = [x for x in flatten(info["final"])
                        if not isinstance(x, asyncio.CancelledError) and x is not e]  # fmt: skip
                if lost:
                    self.V("C07", "start-child-error-discarded",
                           {"gid": gid, "child": child, "lost": [repr(x) for x in lost],
                            "start_raised": repr(e)})  # fmt: skip

            raise
        else:
            self.inprog.pop(tid, None)
            self.pending_start.pop(child, None)
            self.ev(tid, "start-returned", child)
            if self.deferred_routed.pop(child, None) is not None:
                lost = [x for x in flatten(info["final"]) if not isinstance(x, asyncio.CancelledError)]
                if lost:
                    self.V("C07", "start-child-error-discarded",
                           {"gid": gid, "child": child, "lost": [repr(x) for x in lost],
                            "start_raised": None})  # fmt: skip

            if want_handle:
                self.handles[child] = res
                try:
                    val = res.start_value
                except BaseException as e:  # noqa: BLE001
                    self.V("C07", "start_value-unavailable", {"child": child, "exc": repr(e)})
                    val = None
            else:
                val = res

            if info["started_called"] is None:
                self.V("C07", "start-returned-before-started", {"child": child})
            elif val is not info["started_value"]:
                self.V("C07", "start-returned-wrong-value",
                       {"child": child, "got": repr(val), "passed": repr(info["started_value"])})  # fmt: skip

            self.nontrivial.add("start-handshake")

    def judge_start_raised(self, tid, gid, child, e, g_cancelled_before, call_seq=0) -> None:  # noqa: ANN001
        info = self.tinfo[child]
        g = self.ginfo[gid]
        gnode = self.sh.node(f"g{gid}", "group")
        is_cancel = isinstance(e, asyncio.CancelledError)
        if is_cancel:
            self.refresh_inferred(tid)

        if info["started_called"] is not None and not is_cancel:
            self.V("C07", "start-raised-after-started", {"child": child, "exc": repr(e)})

        if info["ended"] is None:
            # whatever start() raises, the child must be gone first when start() gave up
            self.V("C07", "start-raised-while-child-still-running",
                   {"child": child, "exc": repr(e)})  # fmt: skip

        if is_cancel:
            eff = self.sh.task_eff(tid) or self.recently_eff(tid)
            childs = info["final"]
            if isinstance(childs, asyncio.CancelledError) and info["started_called"] is None:
                # the child ended (cancelled) before calling started(): start() raises the
                # child's exception, which here is a cancellation exception -- the child's
                # own object, unless the caller has a cancellation of its own to raise
                self.window("start_raised_childs_cancellation")
                if e is not childs and not eff and not (
                    self.sh.last_eff.get(tid) and self.sh.last_eff[tid][0] >= call_seq
                ):
                    self.V("C07", "start-raised-foreign-exception",
                           {"child": child, "exc": repr(e), "child_exc": repr(childs)})  # fmt: skip
            elif not eff and self.sh.last_eff.get(tid) and self.sh.last_eff[tid][0] >= call_seq:
                # start() re-raises the caller's cancellation only after the child has
                # terminated, possibly long after it was delivered
                self.window("tie_tolerated:start_reraised_cancellation_delivered_earlier")
            elif not eff and not (childs is e):
                if any(m.cancelled for m in self.visible_chain(tid)):
                    self.window("tie_tolerated:cancel_delivered_before_recent_shield")
                else:
                    self.V("C04", "cancelled-while-scope-not-effectively-cancelled",
                           {"tid": tid, "op": "start"})  # fmt: skip

            return

        # a non-cancellation exception from start(): must be the child's own
        if info["ended"] is not None and info["final"] is not None:
            if e is not info["final"]:
                self.V("C07", "start-raised-foreign-exception",
                       {"child": child, "exc": repr(e), "child_exc": repr(info["final"])})  # fmt: skip
        elif info["ended"] is not None and info["final"] is None:
            if not isinstance(e, RuntimeError):
                self.V("C07", "start-wrong-error-for-child-that-returned",
                       {"child": child, "exc": repr(e)})  # fmt: skip

        if e is info["final"] or info["final"] is None:
            g["start_routed"].add(child)

        # the group is not cancelled on that account
        tg = self.groups[gid]
        if tg.cancel_scope.cancel_called and not gnode.cancelled and not g_cancelled_before:
            self.V("C07", "group-cancelled-because-start-child-failed", {"child": child})

    def do_started(self, tid: Any, value: Any, ctx: dict | None) -> None:
        ts = ctx.get("task_status") if ctx else None
        if ts is None:
            return

        info = self.tinfo[tid]
        # ["started", None]: started() without a value / with None - a start value like any
        # other (also through return_handle=True and handle.start_value)
        v = None if value is None else ("started", tid, value)
        self.ev(tid, "started-call", value)
        starter = self.pending_start.get(tid)
        last = self.sh.last_eff.get(starter) if starter is not None else None
        starter_cancelled = starter is not None and (
            self.sh.task_eff(starter)
            or (last is not None and last[0] >= self.start_call_seq.get(tid, 0))
        )
        first = info["started_called"] is None
        try:
            ts.started(v)
        except RuntimeError as e:
            if first:
                self.V("C07", "first-started-call-refused", {"tid": tid, "exc": repr(e)})
            else:
                self.window("second_started_refused")
                since = self.sh.eff_since.get(starter) if starter is not None else None
                if (info.get("starter_was_cancelled") and since is not None
                        and self.cyc() - since[1] >= 3):  # fmt: skip
                    # "... unless the caller has been cancelled in the meantime": the caller
                    # has been effectively cancelled for 3+ cycles and already was at the
                    # previous started() call
                    self.V("C07", "second-started-refused-although-the-caller-was-cancelled",
                           {"tid": tid, "exc": repr(e)})  # fmt: skip
        except BaseException as e:  # noqa: BLE001
            self.V("C07", "exc!", {"op": "started", "exc": repr(e)})
        else:
            if first:
                info["started_called"] = self.seq
                info["started_value"] = v
            elif not starter_cancelled and not info.get("starter_was_cancelled"):
                self.V("C07", "second-started-call-accepted", {"tid": tid})
            else:
                self.window("second_started_after_caller_cancelled")

        if starter_cancelled:
            info["starter_was_cancelled"] = True

    async def await_handle(self, tid: Any, target: Any, how: str) -> None:
        h = self.handles.get(target)
        if h is None:
            return

        tinfo = self.tinfo[target]
        rec_kind = "handle." + how
        try:
            if how == "wait":
                await self.blocking(tid, rec_kind, h.wait, event=("task", target))
            else:
                await self.blocking(tid, rec_kind, lambda: _await(h), event=("task", target),
                                    allow_exc=True)  # fmt: skip
        except asyncio.CancelledError:
            raise
        except BaseException as e:  # noqa: BLE001
            # TaskFailed / TaskCancelled when awaiting a handle of a failed task
            if tinfo["ended"] is None:
                self.V("C01", "handle-await-raised-before-task-ended", {"target": target,
                                                                       "exc": repr(e)})  # fmt: skip
        else:
            if tinfo["ended"] is None:
                self.V("C01", "handle-wait-returned-before-task-ended", {"target": target})

    # ------------------------------------------------------------------ group verdicts
    def judge_group_exit(self, g: dict, n: Node, block_exc, expect_absorb,  # noqa: ANN001
                         cancelling_before, tid) -> None:  # fmt: skip
        from anyio import TaskHandle

        gid = g["gid"]
        st = TaskHandle.Status
        # ---- C01: every member has terminated, handles are final and truthful
        for m in g["members"]:
            info = self.tinfo[m]
            h = self.handles.get(m)
            if info["ended"] is None:
                self.V("C01", "child-still-running-at-group-exit", {"gid": gid, "child": m})
                continue

            t = info.get("task")
            if t is not None and not t.done() and t is not asyncio.current_task():
                # the coroutine has logged its end; the asyncio task must be done too
                self.V("C01", "child-task-not-done-at-group-exit", {"gid": gid, "child": m})

            if h is None:
                continue

            status = h.status
            final = info["final"]
            if status in (st.PENDING, st.CANCELLING):
                self.V("C01", "handle-not-final-at-group-exit",
                       {"gid": gid, "child": m, "status": status.name})  # fmt: skip
            elif final is None:
                ok = status is st.FINISHED
                try:
                    ok = ok and h.return_value is info["retval"] and h.exception is None
                except BaseException:  # noqa: BLE001
                    ok = False

                if not ok:
                    self.V("C01", "handle-disagrees-with-coroutine-outcome",
                           {"child": m, "status": status.name, "actual": "returned"})  # fmt: skip
            elif isinstance(final, asyncio.CancelledError):
                if status is not st.CANCELLED:
                    self.V("C01", "handle-disagrees-with-coroutine-outcome",
                           {"child": m, "status": status.name, "actual": "cancelled"})  # fmt: skip
            else:
                ok = status is st.FAILED
                try:
                    ok = ok and h.exception is final
                except BaseException:  # noqa: BLE001
                    ok = False

                if not ok:
                    self.V("C01", "handle-disagrees-with-coroutine-outcome",
                           {"child": m, "status": status.name, "actual": repr(final)[:60]})  # fmt: skip

        # ---- C02: leaves of what the block raised == what body and members ended with
        expected: list[BaseException] = []
        for x in flatten(g["body_exc"]):
            if not isinstance(x, asyncio.CancelledError):
                expected.append(x)

        for m in g["members"]:
            if m in g["start_routed"]:
                continue

            if m in self.pending_start and self.tinfo[m]["ended"] is not None:
                # the child of a start() whose caller (a task outside this group) has not
                # resumed yet: its exception is still on its way to that caller -- judged
                # when start() raises there
                g["start_routed"].add(m)
                self.deferred_routed[m] = gid
                self.window("start_error_routed_after_group_exit")
                continue

            for x in flatten(self.tinfo[m]["final"]):
                if not isinstance(x, asyncio.CancelledError):
                    expected.append(x)

        got = flatten(block_exc)
        got_nc = [x for x in got if not isinstance(x, asyncio.CancelledError)]
        got_c = [x for x in got if isinstance(x, asyncio.CancelledError)]
        if sorted(map(id, expected)) != sorted(map(id, got_nc)):
            missing = [repr(x) for x in expected if id(x) not in set(map(id, got_nc))]
            extra = [repr(x) for x in got_nc if id(x) not in set(map(id, expected))]
            dup = len(got_nc) != len(set(map(id, got_nc)))
            self.V("C02", "exception-leaves-differ",
                   {"gid": gid, "dropped": missing, "unexpected": extra, "duplicated": dup})  # fmt: skip
            got_ids = set(map(id, got_nc))
            for m in g["start_routed"]:
                # routed to the caller of start(): must not ALSO be collected by the group
                fin = [x for x in flatten(self.tinfo[m]["final"])
                       if not isinstance(x, asyncio.CancelledError)]  # fmt: skip
                for x in fin:
                    n_exp = sum(1 for y in expected if y is x)
                    n_got = sum(1 for y in got_nc if y is x)
                    if n_got > n_exp:
                        self.V("C07", "start-child-error-surfaced-twice",
                               {"gid": gid, "child": m, "exc": repr(x)})  # fmt: skip

            for m in g["members"]:
                if self.tinfo[m].get("how") == "start" and m not in g["start_routed"]:
                    lost = [x for x in flatten(self.tinfo[m]["final"])
                            if not isinstance(x, asyncio.CancelledError) and id(x) not in got_ids]  # fmt: skip
                    if lost:
                        self.V("C07", "start-child-error-discarded",
                               {"gid": gid, "child": m, "lost": [repr(x) for x in lost]})  # fmt: skip

        if len(expected) >= 2 or (expected and g["body_exc"] is not None and
                                  isinstance(g["body_exc"], asyncio.CancelledError)):  # fmt: skip
            self.nontrivial.add("multi-failure")

        if isinstance(block_exc, BaseExceptionGroup) and expected:
            # (cancellations nested inside a member's own exception group are that
            # member's business; the task group itself must not add any)
            if any(isinstance(x, asyncio.CancelledError) for x in block_exc.exceptions):
                self.V("C02", "cancellation-reported-as-error-leaf", {"gid": gid})

        if expected and not isinstance(block_exc, BaseExceptionGroup):
            self.V("C02", "errors-not-raised-as-exception-group",
                   {"gid": gid, "raised": repr(block_exc)})  # fmt: skip

        if not expected:
            if block_exc is not None and not isinstance(block_exc, asyncio.CancelledError):
                if not got_nc:
                    self.V("C02", "group-raised-although-nothing-failed",
                           {"gid": gid, "raised": repr(block_exc)})  # fmt: skip
            elif isinstance(block_exc, asyncio.CancelledError):
                # only a cancellation coming from an enclosing scope may pass through
                last = self.sh.last_eff.get(tid)
                outer_eff = (
                    self.sh.task_eff(tid)
                    or self.recently_eff(tid)
                    # delivered while the host was waiting in __aexit__ (it surfaces only
                    # once the children are gone, maybe after a shield went up)
                    or (last is not None and last[0] >= g.get("aexit_seq", 0))
                    or isinstance(g["body_exc"], asyncio.CancelledError)
                )
                if not outer_eff:
                    self.V("C02", "own-shutdown-cancellation-leaked",
                           {"gid": gid, "raised": repr(block_exc)})  # fmt: skip
            elif block_exc is None and g["body_exc"] is not None and isinstance(
                g["body_exc"], asyncio.CancelledError
            ):
                # the body was interrupted by a cancellation and the group swallowed it:
                # legitimate iff the group's own scope was the cancelled one
                if not expect_absorb and not self.recent_change(n):
                    self.V("C04", "absorb-decision-wrong",
                           {"sid": f"g{gid}", "absorbed": True, "expected": False})  # fmt: skip

        # ---- C05 (a) for the group's scope
        if self.clean_region(tid):
            c = asyncio.current_task().cancelling()
            self.window("residue_checked_at_group_exit")
            if c != cancelling_before:
                self.V("C05", "cancelling-count-not-restored",
                       {"sid": f"g{gid}", "before": cancelling_before, "after": c})  # fmt: skip

    def final_checks(self) -> None:
        # C01: no member executed a step after its group's exit
        for gid, g in self.ginfo.items():
            if g["exited"] is None:
                continue

            members = set(g["members"])
            for e in self.log:
                if e[0] > g["exited"] and e[3] in members and e[4] in ("step", "end", "start"):
                    self.V("C01", "child-step-after-group-exit",
                           {"gid": gid, "child": e[3], "event": e[4]})  # fmt: skip
                    break


async def _await(h):  # noqa: ANN001, ANN202
    return await h


def execute(program: dict) -> dict:
    r = Run(program)
    info: dict = {"stuck_ticks": 900}
    try:
        run(r.main, config=program["cfg"], info=info, cycle_budget=program.get("budget", 4000))
    except Deadlock:
        blocked = r.snap.get("blocked", {})
        culprits = {str(t): v for t, v in blocked.items() if v[2]}
        r.aborted = None
        if culprits:
            r.V("C03", "deadlock:task-blocked-in-effectively-cancelled-scope",
                {"blocked": culprits})  # fmt: skip
            if any(v[4] in ("member-failed", "body-failed") for v in blocked.values() if v[2]):
                r.V("C02", "remaining-task-not-cancelled-after-failure", {"blocked": culprits})
        else:
            r.window("skipped_unjustified_deadlock")
            r.viol.append(("C00", "unexplained-deadlock", {"blocked": {str(k): v for k, v in
                                                                   blocked.items()}}))  # fmt: skip
    except BusyLoop:
        r.aborted = None
        r.V("ALL", "busy-loop", {"cycles": info.get("cycles")})
    except BaseExceptionGroup as e:
        r.aborted = None
        r.V("C02", "exception-escaped-program", {"exc": repr(e)[:300]})
    except asyncio.CancelledError as e:
        # nobody cancels the root task from outside: a cancellation exception leaving the
        # program was invented, or not absorbed by the scope that caused it
        r.aborted = None
        r.V("ALL", "cancellation-escaped-program", {"exc": repr(e)[:300]})
    except Exception as e:  # noqa: BLE001
        r.aborted = None
        import traceback

        r.V("ALL", "harness-or-library-crash", {"exc": repr(e), "tb": traceback.format_exc()[-1500:]})

    if info.get("callback_errors") and not r.snap:
        r.viol.append(("C00", "exception-in-loop-callback", info["callback_errors"][:3]))

    sig = sig_of([program["cfg"], [(e[3], e[4]) + tuple(map(str, e[5:6])) for e in r.log]])
    return {
        "viol": r.viol,
        "windows": r.windows,
        "maxima": r.maxima,
        "nontrivial": sorted(r.nontrivial),
        "sig": sig,
        "log_tail": [list(map(str, e)) for e in r.log[-60:]],
        "nevents": len(r.log),
    }
