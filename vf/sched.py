"""Shared workload plumbing for the cooperative-concurrency checks (C09-C13, C20 ...).

* ``Harness``  -- event log (written only by harness code at the API boundary), relative
  cycle counter, agents (things that happen outside any task at a chosen loop cycle, either
  registered ahead of or behind the tasks' own wake-ups -- DESIGN.md 2.3/3).
* ``Actor``    -- one generated task that can be cancelled either through an AnyIO cancel
  scope or natively (``asyncio.Task.cancel()``); the harness records the instant at which
  the cancellation was *issued*.
* ``run_actors`` -- spawns the actors (scope-mode ones in a task group, native-mode ones as
  plain asyncio tasks), registers agents on both sides, joins everything.

The ready queue is never reordered: schedule diversity comes from per-op delays, agent
cycles/placement and the kind of cancellation only.
"""

from __future__ import annotations

import asyncio
from typing import Any, Awaitable, Callable

import anyio
from anyio import CancelScope

from .loops import cycles_now, ticker_of


class Harness:
    def __init__(self) -> None:
        self.loop = asyncio.get_running_loop()
        self.c0 = cycles_now()
        self.log: list[tuple] = []
        self.seq = 0
        self._agents: list[tuple[int, str, Callable[[], None], str]] = []
        self.actors: list[Actor] = []
        self.finished = False  # set when all actors are done: agents stop firing
        self.aborted: str | None = None
        self.abort_marks: list[Callable[[], None]] = []
        hooks = getattr(self.loop, "abort_hooks", None)
        self.ticker = None
        if hooks is not None:
            hooks.append(self._on_abort)
        else:
            # uvloop: cycle ticker + logical stuck rule instead of VLoop's Deadlock
            self.ticker = ticker_of(self.loop)
            if self.ticker is not None:
                self.ticker.abort_hooks.append(self._on_abort)

    def _on_abort(self, reason: str) -> None:
        self.aborted = reason
        self.ev("loop", "ABORT", reason)
        for m in self.abort_marks:
            m()

    def freeze_on_abort(self, lst: list) -> None:
        """Truncate ``lst`` back to its length at the instant the loop aborted
        (Deadlock/BusyLoop): whatever is appended during shutdown is not evidence."""
        state = {}
        self.abort_marks.append(lambda: state.setdefault("n", len(lst)))
        self._frozen = getattr(self, "_frozen", [])
        self._frozen.append((lst, state))

    def apply_freeze(self) -> None:
        for lst, state in getattr(self, "_frozen", []):
            if "n" in state:
                del lst[state["n"] :]

    # -- log ---------------------------------------------------------------------------
    def cyc(self) -> int:
        return cycles_now() - self.c0

    def ev(self, actor: Any, kind: str, *payload: Any) -> int:
        self.seq += 1
        self.log.append((self.seq, self.cyc(), actor, kind, *payload))
        if self.ticker is not None:
            self.ticker.activity()

        return self.seq

    def signature(self) -> list:
        """Order of (actor, kind) events -- cycle numbers deliberately excluded."""
        return [(e[2], e[3]) for e in self.log]

    # -- agents ------------------------------------------------------------------------
    def add_agent(self, at: int, place: str, fn: Callable[[], None], label: str) -> None:
        """Run ``fn`` ``at`` cycles after registration; place = 'before' | 'after' the
        spawning of the actors (i.e. ahead of / behind their wake-ups in a cycle)."""
        self._agents.append((at, place, fn, label))

    def _register(self, place: str) -> None:
        for at, pl, fn, label in self._agents:
            if pl != place:
                continue

            self.loop.call_soon(self._agent_tick, at, fn, label)

    def _agent_tick(self, n: int, fn: Callable[[], None], label: str) -> None:
        # (a method, not a closure: a nested function re-scheduling itself by name would
        # be rebound to the last agent's closure by the loop above)
        if self.finished or self.aborted:
            return

        if n <= 0:
            self.ev("agent", label)
            fn()
        else:
            self.loop.call_soon(self._agent_tick, n - 1, fn, label)


class Actor:
    def __init__(self, h: Harness, name: Any, mode: str) -> None:
        self.h = h
        self.name = name
        # "scope": cancelled through its own CancelScope; "native": a plain asyncio task
        # cancelled with Task.cancel(); "native-in-group": Task.cancel() on a task that is a
        # task-group member running inside an (un-cancelled) CancelScope, i.e. a task with
        # AnyIO scope state (has_pending_cancellation() consults both sources for it)
        self.mode = mode
        self.task: asyncio.Task | None = None
        self.scope: CancelScope | None = None
        self.cancel_issued = False
        self.cancel_issued_seq: int | None = None
        self.done = False
        self.outcome: Any = None
        self.exc: BaseException | None = None
        self.state: dict = {}

    def cancel(self) -> None:
        """Issue the cancellation (idempotent); records the instant."""
        if self.done or self.cancel_issued:
            return

        if self.mode != "scope":
            if self.task is None or self.task.done():
                return

            self.cancel_issued = True
            self.cancel_issued_seq = self.h.ev(self.name, "cancel-issued", self.mode)
            self.task.cancel()
        else:
            if self.scope is None:
                return

            self.cancel_issued = True
            self.cancel_issued_seq = self.h.ev(self.name, "cancel-issued", "scope")
            self.scope.cancel()


async def run_actors(
    h: Harness,
    bodies: list[tuple[Actor, Callable[[Actor], Awaitable[Any]]]],
) -> None:
    """Run all actor bodies to completion; agents are registered before and after."""
    natives: list[asyncio.Task] = []

    async def runner(actor: Actor, body: Callable[[Actor], Awaitable[Any]]) -> None:
        actor.task = asyncio.current_task()
        try:
            if actor.mode == "scope":
                with CancelScope() as actor.scope:
                    actor.outcome = await body(actor)
            elif actor.mode == "native-in-group":
                with CancelScope():
                    actor.outcome = await body(actor)
            else:
                actor.outcome = await body(actor)
        except asyncio.CancelledError as e:
            actor.exc = e
            h.ev(actor.name, "end", "cancelled")
            if actor.mode != "scope":
                return  # a natively cancelled task just ends

            raise
        except BaseException as e:  # noqa: BLE001
            actor.exc = e
            h.ev(actor.name, "end", "error", type(e).__name__)
        else:
            if actor.scope is not None and actor.scope.cancelled_caught:
                h.ev(actor.name, "end", "cancelled")
            else:
                h.ev(actor.name, "end", "ok")
        finally:
            actor.done = True

    h._register("before")
    async with anyio.create_task_group() as tg:
        for actor, body in bodies:
            h.actors.append(actor)
            if actor.mode in ("scope", "native-in-group"):
                tg.start_soon(runner, actor, body, name=f"actor-{actor.name}")
            else:
                t = h.loop.create_task(runner(actor, body), name=f"actor-{actor.name}")
                actor.task = t
                natives.append(t)

        h._register("after")
        if natives:
            await asyncio.wait(natives)

    h.finished = True
