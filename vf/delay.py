"""Preemption amplification for real-thread workloads (DESIGN.md 2.6).

A ``sys.monitoring`` tool with *local* LINE events on chosen code objects only; at each
event a seeded PRNG (own lock) decides whether to ``time.sleep`` for up to a millisecond or
to ``sleep(0)`` (yield the GIL).  This only manufactures interleavings the OS scheduler
could produce by itself -- threads are preemptive, and a pause between two lines of the
event-loop thread is legal as well.  It is never pointed at cooperative code in order to
inject yields there.
"""

from __future__ import annotations

import random
import sys
import threading
import time
from types import CodeType, FunctionType
from typing import Any

TOOL = 3
_lock = threading.Lock()
_rng = random.Random(0)
_sites: set = set()
_injections = 0
_events = 0
_active = False
_prob = 0.25
_max_us = 800


def _cb(code: CodeType, line: int) -> Any:
    global _injections, _events
    with _lock:
        _events += 1
        r = _rng.random()
        d = _rng.random()
        if r < _prob:
            _injections += 1
            _sites.add((code.co_name, line))

    if r < _prob * 0.3:
        time.sleep(d * _max_us / 1e6)
    elif r < _prob:
        time.sleep(0)

    return None


def _codes_of(obj: Any) -> list[CodeType]:
    out: list[CodeType] = []
    f = getattr(obj, "__func__", obj)
    f = getattr(f, "__wrapped__", f)
    code = getattr(f, "__code__", None)
    if code is None:
        return out

    def walk(c: CodeType) -> None:
        out.append(c)
        for k in c.co_consts:
            if isinstance(k, CodeType):
                walk(k)

    walk(code)
    return out


def install(targets: list[Any], seed: int, prob: float = 0.25, max_us: int = 800) -> int:
    """start injecting at the lines of the given functions/methods; returns #code objects"""
    global _active, _prob, _max_us, _injections, _events
    mon = sys.monitoring
    _rng.seed(seed)
    _prob, _max_us = prob, max_us
    _injections = _events = 0
    _sites.clear()
    if not _active:
        mon.use_tool_id(TOOL, "vf-delay")
        mon.register_callback(TOOL, mon.events.LINE, _cb)
        _active = True

    n = 0
    for t in targets:
        for code in _codes_of(t):
            mon.set_local_events(TOOL, code, mon.events.LINE)
            n += 1

    return n


def stats() -> dict:
    with _lock:
        return {"line_events": _events, "injections": _injections, "distinct_sites": len(_sites)}


def uninstall() -> None:
    global _active
    if _active:
        sys.monitoring.free_tool_id(TOOL)
        _active = False


del FunctionType
