"""Independent reference semantics of cancel scopes (DESIGN.md 2.4), ~100 lines.

The interpreter performs every enter / exit / cancel / shield= / deadline= / spawn itself, so
it can keep this model in lock-step without ever reading anyio's private fields.

    eff(n) = n.cancelled or (not n.shield and n.parent is not None and eff(n.parent))

A clock listener latches ``cancelled`` for active nodes whose deadline has been reached each
time the virtual clock advances, and at each deadline assignment / entry.  For every task
the model tracks since when (log sequence number, loop cycle, virtual time) its current
scope has been effectively cancelled without interruption, and when it last was.
"""

from __future__ import annotations

import math
from typing import Callable


class Node:
    __slots__ = ("sid", "parent", "shield", "cancelled", "deadline", "active", "kind",
                 "cancel_cause", "entered_at", "fuzzy_until", "shield_at", "cancelled_at")  # fmt: skip

    def __init__(self, sid: str, kind: str, shield: bool = False, deadline: float = math.inf):
        self.sid = sid
        self.kind = kind  # "scope" | "group" | "handle"
        self.parent: Node | None = None
        self.shield = shield
        self.cancelled = False
        self.deadline = deadline
        self.active = False
        self.cancel_cause: str | None = None
        self.entered_at: float | None = None
        # the model cancels a task group's scope when a member fails, i.e. one cycle
        # before the group's done-callback really does: until that cycle has passed,
        # decisions that read the flag synchronously accept both outcomes
        self.fuzzy_until: int = -1
        self.shield_at: int = -100  # cycle in which the shield was last switched on
        self.cancelled_at: int = -100  # cycle in which the model saw the scope cancelled


class Shadow:
    def __init__(self, now: Callable[[], tuple[int, int, float]]) -> None:
        self.now = now  # -> (seq, cycle, vtime)
        self.nodes: dict[str, Node] = {}
        self.stacks: dict[object, list[Node]] = {}  # task id -> scope stack (top last)
        self.eff_since: dict[object, tuple[int, int, float] | None] = {}
        self.last_eff: dict[object, tuple[int, int, float] | None] = {}
        self.listeners: list[Callable[[], None]] = []

    # -- structure -----------------------------------------------------------------------
    def node(self, sid: str, kind: str = "scope", shield: bool = False,
             deadline: float = math.inf) -> Node:  # fmt: skip
        n = self.nodes.get(sid)
        if n is None:
            n = self.nodes[sid] = Node(sid, kind, shield, deadline)
        elif kind != "scope":
            n.kind = kind

        return n

    def new_task(self, tid: object, base: Node | None) -> None:
        """A task starts with the scope it inherits (group scope) as its base."""
        self.stacks[tid] = [base] if base is not None else []
        self.eff_since[tid] = None
        self.last_eff[tid] = None
        self.touch()

    def end_task(self, tid: object) -> None:
        self.stacks.pop(tid, None)

    def top(self, tid: object) -> Node | None:
        st = self.stacks.get(tid)
        return st[-1] if st else None

    def enter(self, tid: object, n: Node) -> None:
        n.parent = self.top(tid)
        n.active = True
        n.entered_at = self.now()[2]
        self.stacks[tid].append(n)
        if n.deadline <= self.now()[2] and not n.cancelled:
            n.cancelled = True
            n.cancelled_at = self.now()[1]
            n.cancel_cause = "deadline"

        self.touch()

    def exit(self, tid: object, n: Node) -> None:
        st = self.stacks[tid]
        assert st and st[-1] is n, (tid, n.sid, [x.sid for x in st])
        st.pop()
        n.active = False
        self.touch()

    # -- mutations ----------------------------------------------------------------------
    def cancel(self, n: Node, cause: str = "explicit") -> None:
        if not n.cancelled:
            n.cancelled = True
            n.cancelled_at = self.now()[1]
            n.cancel_cause = cause
            self.touch()

    def set_shield(self, n: Node, value: bool) -> None:
        if value and not n.shield:
            n.shield_at = self.now()[1]

        n.shield = value
        self.touch()

    def set_deadline(self, n: Node, value: float) -> None:
        n.deadline = value
        if n.active and not n.cancelled and value <= self.now()[2]:
            n.cancelled = True
            n.cancelled_at = self.now()[1]
            n.cancel_cause = "deadline"

        self.touch()

    def clock_advanced(self, vt: float) -> None:
        changed = False
        for n in self.nodes.values():
            if n.active and not n.cancelled and n.deadline <= vt:
                n.cancelled = True
                n.cancelled_at = self.now()[1]
                n.cancel_cause = "deadline"
                changed = True

        if changed:
            self.touch()

    # -- queries ------------------------------------------------------------------------
    @staticmethod
    def eff(n: Node | None) -> bool:
        while n is not None:
            if n.cancelled:
                return True

            if n.shield:
                return False

            n = n.parent

        return False

    def task_eff(self, tid: object) -> bool:
        return self.eff(self.top(tid))

    def parent_visible(self, n: Node) -> bool:
        return n.parent is not None and not n.shield and self.eff(n.parent)

    def effective_deadline(self, tid: object) -> float:
        """min deadline over the enclosing scopes up to the nearest shield; -inf once an
        eligible scope is cancelled"""
        n = self.top(tid)
        d = math.inf
        while n is not None:
            if n.cancelled:
                return -math.inf

            d = min(d, n.deadline)
            if n.shield:
                break

            n = n.parent

        return d

    def touch(self) -> None:
        """Re-evaluate every task's effective cancellation after a change."""
        now = self.now()
        for tid in self.stacks:
            e = self.task_eff(tid)
            if e:
                if self.eff_since.get(tid) is None:
                    self.eff_since[tid] = now

                self.last_eff[tid] = now
            else:
                if self.eff_since.get(tid) is not None:
                    # it was effectively cancelled right up to this change
                    self.last_eff[tid] = now

                self.eff_since[tid] = None

        for cb in self.listeners:
            cb()

    def note(self, tid: object) -> None:
        """refresh last_eff for one task (called at op boundaries)"""
        if tid in self.stacks and self.task_eff(tid):
            self.last_eff[tid] = self.now()
