"""Per-shard result collector and merge logic.

A shard (one subprocess) explores a slice of a check's case space and reports, as plain
JSON: how many executions it ran, the distinct trace signatures it saw, which of them hit
the property's critical window ("nontrivial"), counters, maxima, a few written-out
samples, violations (with the replayable case) and reasons for being inconclusive.
"""

from __future__ import annotations

import hashlib
import json
from typing import Any

MAX_VIOLATIONS_KEPT = 12
MAX_SAMPLES = 3


def sig_of(obj: Any) -> str:
    """Stable short hash of a JSON-able object (trace signature)."""
    data = json.dumps(obj, sort_keys=True, default=repr, separators=(",", ":"))
    return hashlib.blake2b(data.encode(), digest_size=8).hexdigest()


class Collector:
    def __init__(self) -> None:
        self.evaluations = 0
        self.sigs: set[str] = set()
        self.nontrivial: set[str] = set()
        self.counters: dict[str, int] = {}
        self.maxima: dict[str, float] = {}
        self.samples: list[Any] = []
        self.violations: list[dict] = []
        self.violation_count = 0
        self.inconclusive: list[str] = []
        self.sets: dict[str, set] = {}

    # -- recording -----------------------------------------------------------------
    def case(self, signature: Any, nontrivial: bool, sample: Any = None) -> None:
        """Record one executed case with its trace signature."""
        self.evaluations += 1
        s = signature if isinstance(signature, str) else sig_of(signature)
        self.sigs.add(s)
        if nontrivial:
            if s not in self.nontrivial and sample is not None:
                if len(self.samples) < MAX_SAMPLES:
                    self.samples.append(sample)

            self.nontrivial.add(s)

    def count(self, name: str, n: int = 1) -> None:
        self.counters[name] = self.counters.get(name, 0) + n

    def maximum(self, name: str, value: float) -> None:
        if name not in self.maxima or value > self.maxima[name]:
            self.maxima[name] = value

    def add_to_set(self, name: str, value: Any) -> None:
        self.sets.setdefault(name, set()).add(value)

    def sample(self, obj: Any) -> None:
        if len(self.samples) < MAX_SAMPLES:
            self.samples.append(obj)

    def violation(
        self,
        clause: str,
        detail: Any,
        case: Any,
        mechanism: str | None = None,
    ) -> None:
        """Record a violation of the property's oracle clause ``clause``.

        ``mechanism`` is the classifier's name for a recognised known-finding mechanism
        (see known_findings.json); None means unclassified => always a VIOLATION.
        """
        self.violation_count += 1
        if mechanism is None:
            # (what early-exit rules look at: hits of a classified mechanism must not end
            # a shard's exploration)
            self.unclassified_count = getattr(self, "unclassified_count", 0) + 1

        self.count("violation:" + clause)
        kept_same = sum(
            1
            for v in self.violations
            if v["clause"] == clause and v["mechanism"] == mechanism
        )
        if len(self.violations) < MAX_VIOLATIONS_KEPT and kept_same < 3:
            self.violations.append(
                {
                    "clause": clause,
                    "mechanism": mechanism,
                    "detail": detail,
                    "case": case,
                }
            )

    def inconclusive_because(self, reason: str) -> None:
        if reason not in self.inconclusive:
            self.inconclusive.append(reason)

    # -- (de)serialisation -----------------------------------------------------------
    def to_json(self) -> dict:
        return {
            "evaluations": self.evaluations,
            "sigs": sorted(self.sigs),
            "nontrivial": sorted(self.nontrivial),
            "counters": self.counters,
            "maxima": self.maxima,
            "samples": self.samples,
            "violations": self.violations,
            "violation_count": self.violation_count,
            "inconclusive": self.inconclusive,
            "sets": {k: sorted(v, key=repr) for k, v in self.sets.items()},
        }

    def merge_json(self, d: dict) -> None:
        self.evaluations += d["evaluations"]
        self.sigs.update(d["sigs"])
        self.nontrivial.update(d["nontrivial"])
        for k, v in d["counters"].items():
            self.counters[k] = self.counters.get(k, 0) + v

        for k, v in d["maxima"].items():
            self.maximum(k, v)

        for s in d["samples"]:
            if len(self.samples) < MAX_SAMPLES:
                self.samples.append(s)

        for v in d["violations"]:
            if len(self.violations) < 4 * MAX_VIOLATIONS_KEPT:
                self.violations.append(v)

        self.violation_count += d["violation_count"]
        for r in d["inconclusive"]:
            self.inconclusive_because(r)

        for k, vals in d.get("sets", {}).items():
            self.sets.setdefault(k, set()).update(
                tuple(x) if isinstance(x, list) else x for x in vals
            )


def guarded(col, case, fn, *args):  # noqa: ANN001, ANN002, ANN201
    """run one case; anything that escapes (an exception of the library under test that the
    harness did not anticipate, or a harness bug) becomes a violation with the case attached
    instead of killing the shard (which would only read as 'inconclusive')"""
    try:
        return fn(*args)
    except (KeyboardInterrupt, SystemExit):
        raise
    except BaseException as e:  # noqa: BLE001
        import traceback

        col.violation("check-or-library-crash",
                      {"exc": repr(e)[:300], "tb": traceback.format_exc()[-1500:]}, case)  # fmt: skip


async def guarded_async(col, case, fn, *args):  # noqa: ANN001, ANN002, ANN201
    try:
        return await fn(*args)
    except (KeyboardInterrupt, SystemExit):
        raise
    except BaseException as e:  # noqa: BLE001
        import traceback

        col.violation("check-or-library-crash",
                      {"exc": repr(e)[:300], "tb": traceback.format_exc()[-1500:]}, case)  # fmt: skip


# ---------------------------------------------------------------------------------------
# a case that has PROVED a violation but cannot get its process back (a thread of the library
# under test is blocked for good and the event loop cannot finish): record, write the shard's
# results and leave the process
# ---------------------------------------------------------------------------------------
ACTIVE: dict = {}


def abort_shard(clause: str, detail: Any, case: Any) -> None:
    import json
    import os

    col = ACTIVE.get("col")
    out = ACTIVE.get("out")
    if col is None or out is None:
        raise RuntimeError(f"{clause}: {detail}")

    col.violation(clause, detail, case)
    col.count("shard_left_early_after_unrecoverable_violation")
    with open(out, "w") as fh:
        json.dump(col.to_json(), fh, default=repr)

    os._exit(0)
