"""C05 (e): native asyncio constructs around / after AnyIO scopes behave as if the scope had
never been cancelled -- twin-differential scenarios on the virtual-time loop.

Each scenario is run twice: with the AnyIO scope cancelled-and-absorbed (``cancel=True``) and
as its twin in which the scope is never cancelled; the *outcome of the native construct*
(what asyncio.timeout / asyncio.TaskGroup raise, when, and Task.cancelling()) must be the
same in both.  Additional scenarios let a NATIVE cancellation pass an AnyIO scope that is
itself cancelled: the scope must absorb only its own cancellation and must give back only
the native cancellation requests that it issued itself.
"""

from __future__ import annotations

import asyncio
from typing import Any

from .collect import sig_of
from .loops import BusyLoop, Deadlock, run


async def _absorbed_scope(cancel: bool, redeliveries: int, nested: bool, children: int) -> None:
    """an AnyIO scope that (if ``cancel``) is cancelled, swallows ``redeliveries``
    re-deliveries and absorbs its own cancellation"""
    import anyio
    from anyio import CancelScope, create_task_group
    from anyio.lowlevel import checkpoint

    async def sleeper() -> None:
        await anyio.sleep(50)

    with CancelScope() as s:
        if cancel:
            s.cancel()

        async def inner() -> None:
            n = 0
            while True:
                try:
                    await checkpoint()
                    if not cancel:
                        return
                except asyncio.CancelledError:
                    n += 1
                    if n > redeliveries:
                        raise

        if children:
            async with create_task_group() as tg:
                for _ in range(children):
                    tg.start_soon(sleeper)

                try:
                    if nested:
                        with CancelScope():
                            await inner()
                    else:
                        await inner()
                finally:
                    tg.cancel_scope.cancel()
        elif nested:
            with CancelScope():
                await inner()
        else:
            await inner()


async def t_timeout_not_firing(p: dict) -> Any:
    out: list = []
    t0 = asyncio.get_running_loop().time()
    try:
        async with asyncio.timeout(10):
            await _absorbed_scope(p["cancel"], p["r"], p["nested"], p["children"])
            await asyncio.sleep(1)
            out.append(("inside-ok", asyncio.current_task().cancelling()))
    except BaseException as e:  # noqa: BLE001
        out.append(("raised", type(e).__name__))

    out.append(("t", asyncio.get_running_loop().time() - t0))
    out.append(("cancelling", asyncio.current_task().cancelling()))
    return out


async def t_timeout_firing(p: dict) -> Any:
    out: list = []
    t0 = asyncio.get_running_loop().time()
    try:
        async with asyncio.timeout(2):
            await _absorbed_scope(p["cancel"], p["r"], p["nested"], p["children"])
            await asyncio.sleep(5)
            out.append(("not-interrupted",))
    except BaseException as e:  # noqa: BLE001
        out.append(("raised", type(e).__name__))

    out.append(("t", asyncio.get_running_loop().time() - t0))
    out.append(("cancelling", asyncio.current_task().cancelling()))
    return out


async def t_taskgroup_failing_child(p: dict) -> Any:
    out: list = []

    async def failing() -> None:
        await asyncio.sleep(0.5)
        raise ValueError("child")

    try:
        async with asyncio.TaskGroup() as tg:
            await _absorbed_scope(p["cancel"], p["r"], p["nested"], p["children"])
            tg.create_task(failing())
            await asyncio.sleep(3)
            out.append(("not-interrupted",))
    except BaseException as e:  # noqa: BLE001
        out.append(("raised", type(e).__name__,
                    [type(x).__name__ for x in getattr(e, "exceptions", [])]))  # fmt: skip

    out.append(("cancelling", asyncio.current_task().cancelling()))
    return out


async def t_scope_then_native_constructs(p: dict) -> Any:
    """scope first, native constructs afterwards"""
    out: list = []
    await _absorbed_scope(p["cancel"], p["r"], p["nested"], p["children"])
    out.append(("cancelling-after-scope", asyncio.current_task().cancelling()))
    try:
        async with asyncio.timeout(1):
            await asyncio.sleep(3)
    except BaseException as e:  # noqa: BLE001
        out.append(("timeout-raised", type(e).__name__))

    try:
        async with asyncio.timeout(5):
            await asyncio.sleep(1)
            out.append(("second-timeout-ok",))
    except BaseException as e:  # noqa: BLE001
        out.append(("second-raised", type(e).__name__))

    out.append(("cancelling", asyncio.current_task().cancelling()))
    return out


async def t_native_cancel_through_cancelled_scope(p: dict) -> Any:
    """A task is cancelled NATIVELY while inside an AnyIO scope; the scope gets cancelled
    too (before or after).  The native cancellation must survive the scope's exit: the task
    ends cancelled, and the native request is still counted until then."""
    import anyio
    from anyio import CancelScope, create_task_group

    seen: dict = {}

    async def sleeper() -> None:
        await anyio.sleep(50)

    async def victim() -> None:
        try:
            with CancelScope() as s:
                seen["scope"] = s
                try:
                    if p["children"]:
                        async with create_task_group() as tg:
                            for _ in range(p["children"]):
                                tg.start_soon(sleeper)

                            await anyio.sleep(50)
                    else:
                        await anyio.sleep(50)
                except asyncio.CancelledError:
                    if p["order"] == "native-first":
                        s.cancel()

                    raise
        finally:
            seen["cancelling_after_scope"] = asyncio.current_task().cancelling()

    t = asyncio.get_running_loop().create_task(victim())
    await asyncio.sleep(0.5)
    if p["order"] == "scope-first":
        seen["scope"].cancel()
        if p["gap"]:
            await asyncio.sleep(0)

    t.cancel("native cancellation with a message")
    if p["order"] == "native-then-scope-same-step":
        # the scope's delivery pass finds the victim's wait already cancelled natively:
        # it must neither cancel again nor book an uncancel() for a cancel() it did not issue
        seen["scope"].cancel()

    try:
        await t
        seen["task"] = "finished normally"
    except asyncio.CancelledError:
        seen["task"] = "cancelled" if t.cancelled() else "cancelled?"
    except BaseException as e:  # noqa: BLE001
        seen["task"] = "raised " + type(e).__name__

    return [("task", seen.get("task")), ("cancelling_after_scope", seen.get("cancelling_after_scope"))]


F36_CLEANUP = "scope:native-cancellation-arriving-while-the-scope's-own-cancellation-unwinds-is-absorbed"


async def t_native_fires_during_cleanup(p: dict) -> Any:
    """asyncio.timeout() / asyncio.TaskGroup AROUND an AnyIO scope whose cancellation is
    still unwinding (a finally block that awaits) when the native construct fires: the
    timeout expires, or a sibling of the native group fails.  Twin: the same program with the
    scope never cancelled (the body then simply waits).  The native construct must win in both:
    TimeoutError / the group's error, raised at the same virtual instant"""
    from anyio import CancelScope

    loop = asyncio.get_running_loop()
    t0 = loop.time()
    out: list = []

    async def body() -> None:
        with CancelScope() as s:
            if p["cancel"]:
                loop.call_later(1, s.cancel)

            try:
                await asyncio.sleep(50)
            finally:
                # clean-up that takes time (virtual seconds 1..4 when the scope is cancelled)
                with CancelScope(shield=True):
                    await asyncio.sleep(3)

        out.append(("left-scope-normally-at", round(loop.time() - t0, 3)))
        await asyncio.sleep(50)
        out.append(("not-interrupted",))

    async def failing_sibling() -> None:
        await asyncio.sleep(2)
        raise RuntimeError("sibling")

    try:
        if p["via"] == "timeout":
            async with asyncio.timeout(2):
                await body()
        else:
            async with asyncio.TaskGroup() as g:
                g.create_task(failing_sibling())
                await body()
    except BaseException as e:  # noqa: BLE001
        out.append(("raised", type(e).__name__))

    out.append(("cancelling", asyncio.current_task().cancelling()))
    return out


F21_EAGER = "eager-3.12:scope-cancelled-by-eagerly-started-native-child-while-its-host-is-running"


async def t_native_child_cancels_scope(p: dict) -> Any:
    """a NATIVE child task (loop.create_task / asyncio.TaskGroup) cancels the AnyIO scope of
    its parent; the parent stays ``awaits`` checkpoints inside the scope, leaves it and then
    awaits three times: those awaits run undisturbed and Task.cancelling() is 0.  With the
    eager task factory the child runs inside create_task(), i.e. while the host is running"""
    import sys

    from anyio import CancelScope

    seen: dict = {"sync": False}
    res: list = []

    async def child(scope) -> None:  # noqa: ANN001
        scope.cancel()
        seen["ran"] = True

    async def host() -> None:
        me = asyncio.current_task()
        with CancelScope() as s:
            if p["via"] == "taskgroup":
                async with asyncio.TaskGroup() as g:
                    g.create_task(child(s))
                    seen["sync"] = seen.get("ran", False)
            else:
                t = asyncio.get_running_loop().create_task(child(s))
                seen["sync"] = seen.get("ran", False)
                seen["t"] = t

            for _ in range(p["awaits"]):
                await asyncio.sleep(0)

        res.append(("cancelling_after_scope", me.cancelling()))
        for i in range(3):
            try:
                await asyncio.sleep(0)
            except asyncio.CancelledError as e:
                res.append(("stray_cancellation_at_await", i, str(e.args[:1])[:40]))
                break
        else:
            res.append(("awaits_after_scope", "undisturbed"))

    t = asyncio.get_running_loop().create_task(host())
    await asyncio.wait([t])
    res.append(("host", "cancelled" if t.cancelled() else "done"))
    res.append(("child_ran_inside_create_task", seen["sync"]))
    res.append(("py<3.13", sys.version_info < (3, 13)))
    return res


TWIN_SCENARIOS = {
    "timeout_not_firing": t_timeout_not_firing,
    "timeout_firing": t_timeout_firing,
    "taskgroup_failing_child": t_taskgroup_failing_child,
    "scope_then_native": t_scope_then_native_constructs,
}


def cases():  # noqa: ANN201
    for cfg in ("stock", "eager"):
        for name in TWIN_SCENARIOS:
            for r in (0, 1, 2, 3, 5):
                for nested in (False, True):
                    for children in (0, 2):
                        yield {"t": "twin", "cfg": cfg, "scenario": name, "r": r,
                               "nested": nested, "children": children}  # fmt: skip

        # (only "native first": two cancel() calls issued before the task runs are merged by
        # asyncio itself into ONE CancelledError carrying the first message, so a native
        # request arriving on top of an undelivered AnyIO one is indistinguishable)
        for children in (0, 1, 3):
            yield {"t": "native_through", "cfg": cfg, "order": "native-first",
                   "children": children, "gap": False}  # fmt: skip
            yield {"t": "native_through", "cfg": cfg, "order": "native-then-scope-same-step",
                   "children": children, "gap": False}  # fmt: skip

        for via in ("create_task", "taskgroup"):
            for awaits in (0, 1, 2):
                yield {"t": "native_child_cancels", "cfg": cfg, "via": via, "awaits": awaits}

        for via in ("timeout", "taskgroup"):
            yield {"t": "native_during_cleanup", "cfg": cfg, "via": via}


def execute(case: dict) -> dict:
    viol: list = []
    out: dict = {"viol": viol, "windows": {}, "nontrivial": True}
    results: dict = {}

    def go(fn, params) -> Any:  # noqa: ANN001
        async def main() -> Any:
            return await fn(params)

        try:
            return run(main, config=case["cfg"])
        except Deadlock:
            return [("DEADLOCK",)]
        except BusyLoop:
            return [("BUSYLOOP",)]
        except BaseException as e:  # noqa: BLE001
            return [("escaped", type(e).__name__)]

    if case["t"] == "twin":
        fn = TWIN_SCENARIOS[case["scenario"]]
        with_cancel = go(fn, dict(case, cancel=True))
        twin = go(fn, dict(case, cancel=False))
        results = {"with_cancelled_scope": with_cancel, "twin": twin}
        out["windows"]["twin:" + case["scenario"]] = 1
        if with_cancel != twin:
            viol.append(("C05", "native-construct-behaves-differently-after-absorbed-cancellation",
                         results))  # fmt: skip
    elif case["t"] == "native_during_cleanup":
        with_cancel = go(t_native_fires_during_cleanup, dict(case, cancel=True))
        twin = go(t_native_fires_during_cleanup, dict(case, cancel=False))
        results = {"with_cancelled_scope": with_cancel, "twin": twin}
        out["windows"]["native_construct_fires_while_scope_cancellation_unwinds"] = 1
        a = [x for x in with_cancel if x[0] != "left-scope-normally-at"]
        if a != twin:
            # F36: the native CancelledError is raised inside the handler of the scope's own
            # cancellation, is chained to it implicitly and so passes for AnyIO's at the exit
            mech = F36_CLEANUP if any(x[0] == "left-scope-normally-at" for x in with_cancel) else None
            viol.append(("C05", "native-construct-behaves-differently-around-a-cancelled-scope",
                         results, mech))  # fmt: skip
    elif case["t"] == "native_child_cancels":
        res = go(t_native_child_cancels_scope, case)
        results = {"observed": res}
        out["windows"]["native_child_cancels_parent_scope"] = 1
        d = {x[0]: x[1:] for x in res}
        if d.get("child_ran_inside_create_task") == (True,):
            out["windows"]["scope_cancelled_while_its_host_was_running(eager)"] = 1

        if "awaits_after_scope" not in d or d.get("cancelling_after_scope") != (0,) or d.get("host") != ("done",):
            # F21: the eagerly started child called cancel() on the scope of a host that is
            # on the stack (running, but not current_task()); the host left the scope without
            # suspending in it; CPython < 3.13 keeps Task._must_cancel set after uncancel()
            mech = None
            if (case["cfg"] == "eager" and d.get("child_ran_inside_create_task") == (True,)
                    and case["awaits"] == 0
                    and d.get("py<3.13") == (True,) and "stray_cancellation_at_await" in d):  # fmt: skip
                mech = F21_EAGER

            viol.append(("C05", "later-awaits-disturbed-after-scope-exit", results, mech))
    else:
        res = go(t_native_cancel_through_cancelled_scope, case)
        results = {"observed": res}
        out["windows"]["native_cancel_through_cancelled_scope"] = 1
        d = dict(res) if all(len(x) == 2 for x in res) else {}
        if d.get("task") != "cancelled":
            viol.append(("C05", "native-cancellation-swallowed-by-anyio-scope", results))
        elif d.get("cancelling_after_scope") != 1:
            viol.append(("C05", "native-cancellation-request-count-wrong-after-scope", results))

    out["sig"] = sig_of([case, results])
    out["log_tail"] = [results]
    return out
