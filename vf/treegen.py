"""Seeded generator of task-tree / cancel-scope programs for vf/tree.py.

``gen(rng, profile)`` returns a JSON-able program.  Profiles only shift weights, every
profile can produce every op, so a break of one property is usually seen by several checks.
"""

from __future__ import annotations

import random
from typing import Any

PROFILES: dict[str, dict[str, Any]] = {
    # weights of ops inside a task body
    "c01": {"cp": 5, "group": 4, "forever": 2, "raise": 1.2, "cleanup": 2.5, "scope": 1.5,
            "spawn": 2, "cancel": 2, "catch_then": 0.7, "wait": 1, "sleep": 0.7,
            "await_handle": 1, "cancel_task": 0.8, "shield": 0.4, "return": 0.5,
            "catch_mix": 0.4, "start_children": 0.25, "agents": (0, 3), "depth": 3, "max_tasks": 9},  # fmt: skip
    "c02": {"cp": 5, "group": 4, "forever": 1.5, "raise": 3.5, "cleanup": 3, "scope": 1.5,
            "spawn": 1.5, "cancel": 1.5, "catch_then": 0.5, "wait": 0.7, "sleep": 0.5,
            "await_handle": 0.5, "cancel_task": 0.8, "shield": 0.3, "return": 0.5,
            "catch_mix": 0.5, "start_children": 0.35, "agents": (0, 3), "depth": 3, "max_tasks": 9},  # fmt: skip
    "c03": {"cp": 5, "group": 2.5, "forever": 4, "raise": 0.6, "cleanup": 2.5, "scope": 4,
            "spawn": 1, "cancel": 3.5, "catch_then": 2.5, "wait": 3, "sleep": 2,
            "await_handle": 1.5, "cancel_task": 1, "shield": 1.5, "return": 0.3,
            "catch_mix": 0.4, "start_children": 0.15, "agents": (1, 4), "depth": 4, "max_tasks": 7},  # fmt: skip
    "c04": {"cp": 5, "group": 2, "forever": 3, "raise": 1, "cleanup": 2, "scope": 6,
            "spawn": 0.7, "cancel": 4, "catch_then": 1.5, "wait": 2, "sleep": 1,
            "await_handle": 0.7, "cancel_task": 0.8, "shield": 3, "return": 0.3,
            "catch_mix": 1.2, "start_children": 0.1, "agents": (1, 4), "depth": 5, "max_tasks": 6},  # fmt: skip
    "c05": {"cp": 6, "group": 2.5, "forever": 2.5, "raise": 1, "cleanup": 2, "scope": 6,
            "spawn": 0.7, "cancel": 4, "catch_then": 2, "wait": 1.5, "sleep": 1.5,
            "await_handle": 0.5, "cancel_task": 0.6, "shield": 1.5, "return": 0.3,
            "catch_mix": 0.6, "start_children": 0.1, "agents": (1, 4), "depth": 4, "max_tasks": 6,
            "deadline_p": 0.35},  # fmt: skip
    "c06": {"cp": 2, "group": 0.8, "forever": 1.5, "raise": 0.3, "cleanup": 1, "scope": 5,
            "spawn": 0.2, "cancel": 0.8, "catch_then": 1, "wait": 0.5, "sleep": 7,
            "await_handle": 0.2, "cancel_task": 0.2, "shield": 1, "return": 0.2,
            "catch_mix": 0.2, "tscope": 5, "probe": 4, "deadline": 3,
            "start_children": 0.05, "agents": (0, 3), "depth": 4, "max_tasks": 4,
            "deadline_p": 0.8},  # fmt: skip
    "c07": {"cp": 5, "group": 4, "forever": 2, "raise": 2, "cleanup": 3, "scope": 2,
            "spawn": 1, "cancel": 2.5, "catch_then": 0.7, "wait": 1, "sleep": 0.5,
            "await_handle": 0.7, "cancel_task": 1, "shield": 0.4, "return": 0.7,
            "catch_mix": 0.3, "start_children": 0.8, "agents": (0, 3), "depth": 3, "max_tasks": 8},  # fmt: skip
}
OPS = ["cp", "group", "forever", "raise", "cleanup", "scope", "spawn", "cancel", "catch_then",
       "wait", "sleep", "await_handle", "cancel_task", "shield", "return", "catch_mix",
       "tscope", "probe", "deadline", "scp", "cic"]  # fmt: skip
GRID = [0, 0.5, 1, 1.5, 2, 3, 4]


class Gen:
    def __init__(self, rng: random.Random, profile: str) -> None:
        self.rng = rng
        self.w = PROFILES[profile]
        self.nscope = 0
        self.ngroup = 0
        self.ntask = 0
        self.nboom = 0
        self.sids: list[str] = []
        self.tsids: list[str] = []  # scopes made by timeout helpers (never cancelled explicitly)
        self.tids: list[int] = []
        self.events = ["e0", "e1"]

    def pick(self, allowed: list[str]) -> str:
        ws = [self.w.get(o, {"tscope": 0.3, "probe": 0.3, "deadline": 0.2, "scp": 0.7, "cic": 0.7}.get(o, 0)) for o in allowed]
        return self.rng.choices(allowed, ws)[0]

    def body(self, depth: int, groups: list[int], in_start: bool = False,
             top: bool = False) -> list:  # fmt: skip
        rng = self.rng
        ops: list = []
        n = rng.randint(1, 4 if depth < 2 else 3)
        started_done = not in_start
        for i in range(n):
            allowed = list(OPS)
            if depth >= self.w["depth"]:
                for o in ("group", "scope", "cleanup", "catch_then", "catch_mix", "tscope"):
                    allowed.remove(o)

            if self.ntask >= self.w["max_tasks"]:
                if "group" in allowed:
                    allowed.remove("group")

                allowed.remove("spawn")

            if not groups and "spawn" in allowed:
                allowed.remove("spawn")

            if not self.tids:
                allowed.remove("await_handle")
                allowed.remove("cancel_task")

            if in_start and not started_done and rng.random() < 0.5:
                ops.append(["started", rng.choice([None, 0, 1, 2, 3, 4, 5, 6, 7, 8, 9])])
                started_done = True
                if rng.random() < 0.12:
                    ops.append(["cp", rng.randint(0, 1)])
                    ops.append(["started", 99])

                continue

            k = self.pick(allowed)
            if k == "cp":
                ops.append(["cp", rng.randint(1, 3)])
            elif k == "sleep":
                ops.append(["sleep", rng.choice([0.5, 1, 1.5, 2, 4])])
            elif k == "forever":
                ops.append(["forever"])
            elif k == "wait":
                ops.append(["wait", rng.choice(self.events)])
            elif k == "raise":
                self.nboom += 1
                ops.append(["raise", self.nboom])
                break
            elif k == "return":
                ops.append(["return"])
                break
            elif k == "scope":
                self.nscope += 1
                sid = f"s{self.nscope}"
                self.sids.append(sid)
                drel = None
                if rng.random() < self.w.get("deadline_p", 0.15):
                    drel = rng.choice(GRID)

                pre = []
                if rng.random() < 0.12:
                    pre = [["prepare", sid]]
                    if rng.random() < 0.7:
                        pre.append(["cancel", sid])

                ops += pre
                ops.append(["scope", sid, rng.random() < 0.3, drel,
                            self.body(depth + 1, groups, in_start and not started_done)])  # fmt: skip
            elif k == "group":
                self.ngroup += 1
                gid = self.ngroup
                self.sids.append(f"g{gid}")
                children = []
                for _ in range(rng.randint(1, 3)):
                    if self.ntask >= self.w["max_tasks"]:
                        break

                    children.append(self.child(depth + 1, groups + [gid]))

                ops.append(["group", gid, children, self.body(depth + 1, groups + [gid])])
            elif k == "spawn":
                # mostly into an enclosing group; sometimes into ANY group of the program
                # (a non-member spawning, possibly while that group is draining / gone)
                tgt = rng.choice(groups)
                if self.ngroup and rng.random() < 0.2:
                    tgt = rng.randint(1, self.ngroup)

                ops.append(["spawn", tgt, self.child(depth + 1, groups, no_start=True)])
            elif k == "cancel":
                target = rng.choice(self.sids) if self.sids and rng.random() < 0.8 else (
                    f"g{groups[-1]}" if groups else "ROOT")  # fmt: skip
                if target == "ROOT" and rng.random() < 0.7:
                    continue

                ops.append(["cancel", target])
            elif k == "cancel_task":
                ops.append(["cancel_task", rng.choice(self.tids)])
            elif k == "shield":
                if self.sids:
                    ops.append(["shield", rng.choice(self.sids), rng.random() < 0.5])
            elif k == "cleanup":
                ops.append(["cleanup", self.body(depth + 1, groups), rng.randint(0, 3),
                            "boom" if rng.random() < 0.3 else "reraise"])  # fmt: skip
            elif k == "catch_then":
                ops.append(["catch_then", self.body(depth + 1, groups), self.body(depth + 1, groups)]
                           + (["fresh"] if rng.random() < 0.3 else []))  # fmt: skip
            elif k == "tscope":
                self.nscope += 1
                helper = rng.choice(["move_on_after", "move_on_at", "fail_after", "fail_at"])
                sid = ("f" if helper.startswith("fail") else "m") + str(self.nscope)
                self.tsids.append(sid)
                val = rng.choice(GRID + [None])
                ops.append(["tscope", sid, helper, val, rng.random() < 0.2,
                            self.body(depth + 1, groups)])  # fmt: skip
            elif k == "probe":
                ops.append(["probe"])
            elif k == "scp":
                ops.append(["scp", rng.randint(1, 3)])
            elif k == "cic":
                ops.append(["cic", rng.randint(1, 2)])
            elif k == "deadline":
                pool = self.sids + [x for x in self.tsids]
                if pool:
                    ops.append(["deadline", rng.choice(pool), rng.choice(GRID + [None, -1])])
            elif k == "catch_mix":
                self.nboom += 1
                ops.append(["catch_mix", self.body(depth + 1, groups), self.nboom])
            elif k == "await_handle":
                ops.append(["await_handle", rng.choice(self.tids), rng.choice(["wait", "await"])])

        if in_start and not started_done and rng.random() < 0.6:
            ops.append(["started", rng.randint(0, 9)])
            if rng.random() < 0.5:
                ops += self.body(depth + 1, groups)

        return ops

    def child(self, depth: int, groups: list[int], no_start: bool = False) -> dict:
        rng = self.rng
        self.ntask += 1
        tid = self.ntask
        self.tids.append(tid)
        how = rng.choice(["start_soon", "start_soon", "create_task"])
        if not no_start and rng.random() < self.w["start_children"]:
            how = "start"

        ch = {"tid": tid, "how": how, "body": self.body(depth, groups, in_start=(how == "start"))}
        if how == "start" and rng.random() < 0.3:
            ch["return_handle"] = True

        return ch

    def agents(self) -> list:
        rng = self.rng
        out = []
        lo, hi = self.w["agents"]
        targets = self.sids or ["ROOT"]
        for _ in range(rng.randint(lo, hi)):
            r = rng.random()
            if r < 0.6:
                do = ["cancel", rng.choice(targets)]
            elif r < 0.7 and self.tids:
                do = ["cancel_task", rng.choice(self.tids)]
            elif r < 0.82:
                do = ["shield", rng.choice(targets), rng.random() < 0.5]
            elif r < 0.9:
                do = ["deadline", rng.choice(targets + self.tsids), rng.choice([0, 1, 2, None, -1])]
            else:
                do = ["set", rng.choice(self.events)]

            ag: dict = {"place": rng.choice(["before", "after"]), "do": do}
            if rng.random() < 0.85:
                ag["at"] = rng.randint(0, 16)
            else:
                ag["t"] = rng.choice([0.5, 1, 2, 3])

            out.append(ag)

        return out


def timer_free(ops: list) -> list:
    """uvloop has no virtual clock: strip everything that depends on time"""
    out = []
    for op in ops:
        k = op[0]
        if k == "sleep":
            out.append(["cp", 2])
        elif k in ("deadline", "probe"):
            continue
        elif k == "scope":
            out.append(["scope", op[1], op[2], None, timer_free(op[4])])
        elif k == "tscope":
            out.append(["scope", op[1], op[4], None, timer_free(op[5])])
        elif k == "group":
            out.append(["group", op[1], [dict(c, body=timer_free(c["body"])) for c in op[2]],
                        timer_free(op[3])])  # fmt: skip
        elif k in ("spawn", "startcall"):
            out.append([k, op[1], dict(op[2], body=timer_free(op[2]["body"]))])
        elif k == "cleanup":
            out.append(["cleanup", timer_free(op[1]), op[2], op[3]])
        elif k == "catch_then":
            out.append(["catch_then", timer_free(op[1]), timer_free(op[2]), *op[3:]])
        elif k == "catch_mix":
            out.append(["catch_mix", timer_free(op[1]), op[2]])
        else:
            out.append(op)

    return out


def for_uvloop(program: dict) -> dict:
    agents = []
    for ag in program["agents"]:
        if ag["do"][0] == "deadline":
            continue

        ag = dict(ag)
        if "t" in ag:
            ag["at"] = int(ag.pop("t") * 4) + 3

        agents.append(ag)

    return dict(program, cfg="uvloop", root=timer_free(program["root"]), agents=agents)


def _add_holds(rng: random.Random, ops: list, top: bool = False) -> None:
    if top or rng.random() < 0.3:
        ops.insert(0, ["hold", rng.choice([1, 1, 2])])

    for op in ops:
        if op[0] == "group":
            for ch in op[2]:
                _add_holds(rng, ch["body"])

            _walk_bodies(rng, op[3])
        else:
            _walk_bodies(rng, [op])


def _walk_bodies(rng: random.Random, ops: list) -> None:
    """descend into nested op lists looking for groups (children get their own holds)"""
    for op in ops:
        if op[0] == "group":
            for ch in op[2]:
                _add_holds(rng, ch["body"])

            _walk_bodies(rng, op[3])
        else:
            for x in op[1:]:
                if isinstance(x, list) and x and isinstance(x[0], list):
                    _walk_bodies(rng, x)


def gen(rng: random.Random, profile: str, cfgs: list[str]) -> dict:
    g = Gen(rng, profile)
    root = g.body(0, [], top=True)
    p = {"cfg": rng.choice(cfgs), "root": root, "agents": g.agents(), "profile": profile}
    if profile == "c05" and rng.random() < 0.3:
        # a share of the tasks keep 1-2 native cancellation requests (non-zero
        # Task.cancelling() baseline): surplus uncancel() calls become visible
        _add_holds(rng, root, top=True)

    if p["cfg"] == "uvloop":
        p = for_uvloop(p)

    return p
