"""Runtime-monitoring machinery for the anyio properties C01..C20 (see DESIGN.md)."""
