"""Event loops used by the monitors.

VLoop   -- deterministic virtual-time SelectorEventLoop (DESIGN.md 2.1): time() is a
           virtual clock advanced by the selector instead of sleeping, loop iterations
           are counted ("cycles"), "nothing can ever happen again" raises Deadlock, a
           cycle budget raises BusyLoop, exceptions in callbacks are recorded.
run()   -- runs an async main through anyio.run() (the real backend, Runner, task
           groups ...) on the chosen configuration: "stock", "eager" (VLoop) or
           "uvloop" (real uvloop + a call_soon ticker that counts cycles).
"""

from __future__ import annotations

import asyncio
import logging
import math
import selectors
import time as _time
from typing import Any, Callable

import anyio

CONFIGS_V = ("stock", "eager")
CONFIGS_ALL = ("stock", "eager", "uvloop")

logging.getLogger("asyncio").setLevel(logging.CRITICAL)


class Deadlock(BaseException):
    """The loop has no runnable callback, no finite timer and no ready I/O."""


class BusyLoop(BaseException):
    """The loop exceeded its cycle budget."""


class _VSelector:
    def __init__(self, loop: "VLoop", real: selectors.BaseSelector):
        self._loop = loop
        self._real = real

    def select(self, timeout: float | None = None):  # noqa: ANN201
        loop = self._loop
        ev = self._real.select(0)
        if ev:
            return ev

        if loop.external_pending:
            # real threads are involved: fall back to a short real wait
            return self._real.select(0.001 if timeout is None else min(timeout, 0.001))

        if timeout is None:
            # no ready callbacks and no live timers
            loop._abort("deadlock")
            raise Deadlock(f"blocked forever at vt={loop._vt!r} cycle={loop.cycles}")

        if timeout > 0:
            live = [h._when for h in loop._scheduled if not h._cancelled]
            nxt = min(live) if live else math.inf
            if nxt == math.inf:
                # sleep_forever() is call_later(inf): such timers never fire
                loop._abort("deadlock")
                raise Deadlock(
                    f"blocked forever (only infinite timers) at vt={loop._vt!r} "
                    f"cycle={loop.cycles}"
                )

            # jump exactly to the next timer (timeout is capped at 24h by asyncio)
            loop._vt = max(loop._vt, min(nxt, loop._vt + timeout))
            for cb in loop.clock_listeners:
                cb(loop._vt)

        return []

    def __getattr__(self, name: str) -> Any:
        return getattr(self._real, name)


class VLoop(asyncio.SelectorEventLoop):
    def __init__(self, cycle_budget: int = 20000) -> None:
        self._vt = 0.0
        self.cycles = 0
        self.cycle_budget = cycle_budget
        self.external_pending = 0
        self.clock_listeners: list[Callable[[float], None]] = []
        self.callback_errors: list[dict] = []
        self.closing = False
        self.aborted: str | None = None
        self.abort_hooks: list[Callable[[str], None]] = []
        super().__init__(_VSelector(self, selectors.DefaultSelector()))
        self._clock_resolution = 1e-9
        self.set_exception_handler(self._record_error)

    def time(self) -> float:
        return self._vt

    def _abort(self, reason: str) -> None:
        """Called right before Deadlock/BusyLoop is raised: everything the program does
        afterwards happens under the Runner's shutdown (native cancellation of all
        tasks) and must not be judged."""
        if self.aborted is None:
            self.aborted = reason
            for hook in self.abort_hooks:
                hook(reason)

    def _run_once(self) -> None:
        self.cycles += 1
        if self.cycles > self.cycle_budget:
            # every further 5000 cycles raise again, so that a runaway callback cannot
            # keep the Runner's shutdown phase spinning forever
            self.cycle_budget += 5000
            self._abort("busyloop")
            raise BusyLoop(f"cycle budget {self.cycle_budget} exceeded at vt={self._vt}")

        super()._run_once()

    @staticmethod
    def _record_error(loop: "VLoop", context: dict) -> None:  # type: ignore[override]
        exc = context.get("exception")
        loop.callback_errors.append(
            {
                "message": context.get("message"),
                "exception": repr(exc),
                "type": type(exc).__name__ if exc is not None else None,
            }
        )

    # -- observation helpers -------------------------------------------------------
    def live_handles(self) -> list[asyncio.Handle]:
        out = [h for h in self._ready if not h._cancelled]
        out += [h for h in self._scheduled if not h._cancelled]
        return out

    def handles_of(self, obj: object) -> list[asyncio.Handle]:
        res = []
        for h in self.live_handles():
            cb = h._callback
            if getattr(cb, "__self__", None) is obj:
                res.append(h)

        return res


class UvTicker:
    """Counts loop iterations on a loop that cannot be subclassed (uvloop) and detects a
    stuck program logically: no harness activity for ``stuck_ticks`` iterations of a
    timer-free program means nothing can ever fire again (DESIGN.md 2.2)."""

    def __init__(self, loop: asyncio.AbstractEventLoop, stuck_ticks: int | None = None) -> None:
        self.loop = loop
        self.cycles = 0
        self.running = True
        self.stuck_ticks = stuck_ticks
        self.last_activity = 0
        self.abort_hooks: list[Callable[[str], None]] = []
        self.aborted: str | None = None
        self.aborted_at = 0
        self.main_task: asyncio.Task | None = None
        loop.call_soon(self._tick)

    def activity(self) -> None:
        self.last_activity = self.cycles

    def _tick(self) -> None:
        self.cycles += 1
        if not self.running:
            return

        if (
            self.stuck_ticks is not None
            and self.aborted is None
            and self.cycles - self.last_activity > self.stuck_ticks
        ):
            self.aborted = "deadlock"
            self.aborted_at = self.cycles
            for hook in self.abort_hooks:
                hook("deadlock")

            if self.main_task is not None:
                self.main_task.cancel()
        elif self.aborted is not None and (self.cycles - self.aborted_at) % 50 == 49:
            # the verdict has been recorded; getting the program out must not depend on the
            # library's own cancellation machinery (which may be what is broken): cancel
            # every task natively, again and again, until the run ends
            for t in asyncio.all_tasks(self.loop):
                t.cancel()

        self.loop.call_soon(self._tick)

    def stop(self) -> None:
        self.running = False


def ticker_of(loop: asyncio.AbstractEventLoop) -> "UvTicker | None":
    return _tickers.get(id(loop))


def cycles_now() -> int:
    """Current cycle count of the running loop (VLoop or a uvloop with a ticker)."""
    loop = asyncio.get_running_loop()
    c = getattr(loop, "cycles", None)
    if c is not None:
        return c

    t = _tickers.get(id(loop))
    return t.cycles if t is not None else -1


_tickers: dict[int, UvTicker] = {}


def run(
    main: Callable[..., Any],
    *args: Any,
    config: str = "stock",
    cycle_budget: int = 20000,
    info: dict | None = None,
) -> Any:
    """Run ``main(*args)`` under anyio.run on the given loop configuration.

    ``info`` (optional dict) receives: loop, cycles, vtime, callback_errors.
    Raises Deadlock / BusyLoop (VLoop configurations only).
    """
    created: list[VLoop] = []
    if config in ("stock", "eager"):

        def factory() -> VLoop:
            loop = VLoop(cycle_budget)
            if config == "eager":
                loop.set_task_factory(asyncio.eager_task_factory)

            created.append(loop)
            return loop

        try:
            return anyio.run(main, *args, backend_options={"loop_factory": factory})
        finally:
            for loop in created:
                if info is not None:
                    info["cycles"] = loop.cycles
                    info["vtime"] = loop._vt
                    info["callback_errors"] = loop.callback_errors

                if not loop.is_closed():
                    loop.closing = True
                    try:
                        loop.close()
                    except BaseException:
                        pass
    elif config == "uvloop":
        state: dict = {}

        async def wrapper() -> Any:
            loop = asyncio.get_running_loop()
            ticker = UvTicker(loop, stuck_ticks=(info or {}).get("stuck_ticks"))
            _tickers[id(loop)] = ticker
            state["ticker"] = ticker
            errors: list[dict] = []

            def handler(loop_: Any, context: dict) -> None:
                exc = context.get("exception")
                errors.append(
                    {
                        "message": context.get("message"),
                        "exception": repr(exc),
                        "type": type(exc).__name__ if exc is not None else None,
                    }
                )

            loop.set_exception_handler(handler)
            try:
                ticker.main_task = loop.create_task(main(*args))
                return await ticker.main_task
            finally:
                ticker.stop()
                _tickers.pop(id(loop), None)
                if info is not None:
                    info["cycles"] = ticker.cycles
                    info["vtime"] = None
                    info["callback_errors"] = errors

        try:
            return anyio.run(wrapper, backend_options={"use_uvloop": True})
        except asyncio.CancelledError:
            if state.get("ticker") is not None and state["ticker"].aborted:
                raise Deadlock("no activity on uvloop (logical stuck rule)") from None

            raise
    elif config == "real":
        return anyio.run(main, *args)
    elif config == "real_eager":

        def eager_factory() -> asyncio.AbstractEventLoop:
            loop = asyncio.new_event_loop()
            loop.set_task_factory(asyncio.eager_task_factory)
            return loop

        return anyio.run(main, *args, backend_options={"loop_factory": eager_factory})
    elif config == "real_uvloop":
        return anyio.run(main, *args, backend_options={"use_uvloop": True})
    else:
        raise ValueError(config)


class Watchdog:
    """Wall-clock guard: firing is INCONCLUSIVE, never a violation."""

    def __init__(self, seconds: float) -> None:
        self.deadline = _time.monotonic() + seconds

    def expired(self) -> bool:
        return _time.monotonic() > self.deadline
