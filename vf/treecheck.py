"""Shared shard driver for the tree-program checks (C01-C05, C07)."""

from __future__ import annotations

import random
from typing import Callable, Iterable

from . import tree, treegen

NSHARDS = 16
# virtual-time configurations carry most cases; a share runs on uvloop (timer-free variants,
# cycle ticker, logical stuck rule -- DESIGN.md 2.2)
CFGS = ["stock"] * 4 + ["eager"] * 4 + ["uvloop"] * 2


def cases(profile: str, tier: str, seed: int, n_quick: int, n_thorough: int,
          extra: Callable[[], Iterable[dict]] | None = None, uvloop: bool = True):  # noqa: ANN201
    if extra is not None:
        for i, case in enumerate(extra()):
            yield case
            if uvloop and i % 5 == 0 and case["cfg"] == "stock":
                yield treegen.for_uvloop(case)

    rng = random.Random(seed * 7901 + hash(profile) % 1000)
    cfgs = CFGS if uvloop else ["stock", "eager"]
    for _ in range(n_thorough if tier == "thorough" else n_quick):
        yield treegen.gen(rng, profile, cfgs)


def judge(prop: str, case: dict, col, also: tuple[str, ...] = ()) -> None:  # noqa: ANN001
    res = tree.execute(case)
    nt = bool(res["nontrivial"])
    col.case(res["sig"], nt, sample={"program": case, "trace_tail": res["log_tail"][-25:]})
    for k, v in res["windows"].items():
        col.count("window:" + k, v)

    for k, v in res["maxima"].items():
        col.maximum(k, v)

    for k in res["nontrivial"]:
        col.count("nontrivial:" + k)

    col.count("cfg:" + case["cfg"])
    col.count("events_logged", res["nevents"])
    seen = set()
    for p, clause, detail in res["viol"]:
        if p != prop and p not in also and p != "ALL":
            col.count(f"other_property_clause:{p}:{clause}")
            continue

        if clause in seen:
            continue

        seen.add(clause)
        col.violation(clause, {"detail": detail, "trace": res["log_tail"]}, case)


def shards(tier: str, seed: int) -> list[dict]:
    return [{"tier": tier, "seed": seed, "shard": i, "of": NSHARDS} for i in range(NSHARDS)]
