"""Contract layer (icontract) on synchronous critical sections -- DESIGN.md 2.5.

anyio's cooperative code is atomic between awaits, so every *synchronous* method is a
critical section and its exit is a sound place for an invariant.  The contracts are attached
from the harness to the real classes (class attributes, incl. the ``total_tokens`` property
setter), are expressed through public accessors only, *record* their verdict and return
True (a raising contract would abort what it observes).  ``drain()`` returns and clears the
failures recorded since the last call; ``EVALS`` counts evaluations (zero evaluations means
the layer was bypassed => inconclusive).
"""

from __future__ import annotations

import math
import os
import sys
from collections import Counter

_deps = os.path.join(os.environ.get("VERIF_DIR", "/verif"), ".deps")
if _deps not in sys.path:
    sys.path.append(_deps)

import icontract  # noqa: E402

EVALS: Counter = Counter()
# pre-call observers: name -> list of callables(self, *args), run right before the real
# (public, synchronous) method executes -- lets a monitor sample state at the exact instant
# of a critical section that is entered from inside a blocking call
OBS: dict[str, list] = {}
_FAILS: list[tuple[str, dict]] = []
_ERRORS: list[str] = []
_installed = False


class ContractBroken(Exception):
    pass


def _rec(name: str, ok: bool, detail: dict) -> bool:
    EVALS[name] += 1
    if not ok:
        _FAILS.append((name, detail))

    return True


def drain() -> list[tuple[str, dict]]:
    out = list(_FAILS)
    _FAILS.clear()
    return out


# ---------------------------------------------------------------- CapacityLimiter
def _lim_snap(self):  # noqa: ANN001, ANN202, N803
    try:
        return (self.borrowed_tokens, self.total_tokens, self.statistics().tasks_waiting)
    except Exception as e:  # noqa: BLE001
        EVALS["contract_error"] += 1
        _ERRORS.append(repr(e))
        return None


def _lim_post(self, OLD):  # noqa: ANN001, ANN202, N803
    try:
        b0, t0, w0 = OLD.s
        b, t = self.borrowed_tokens, self.total_tokens
        st = self.statistics()
        ok = (
            b <= max(t, b0)  # a grant never exceeds a free token
            and self.available_tokens == t - b
            and st.borrowed_tokens == b == len(st.borrowers)
            and st.total_tokens == t
            # a waiter may only remain queued while no token is free
            and not (st.tasks_waiting > 0 and b < t)
        )
        return _rec(
            "limiter",
            ok,
            {"borrowed_before": b0, "total_before": t0, "waiting_before": w0, "borrowed": b,
             "total": t, "available": self.available_tokens, "waiting": st.tasks_waiting},
        )  # fmt: skip
    except Exception as e:  # noqa: BLE001
        EVALS["contract_error"] += 1
        _ERRORS.append(repr(e))
        return True


def _lim_snap_v(self, value):  # noqa: ANN001, ANN202
    return _lim_snap(self)


def _lim_post_v(self, value, OLD):  # noqa: ANN001, ANN202, N803
    return _lim_post(self, OLD)


def _lim_snap_b(self, borrower):  # noqa: ANN001, ANN202
    return _lim_snap(self)


def _lim_post_b(self, borrower, OLD):  # noqa: ANN001, ANN202, N803
    return _lim_post(self, OLD)


def _lim_post_release(self, borrower, OLD):  # noqa: ANN001, ANN202, N803
    # release_on_behalf_of gives one token back and may hand it to one waiter: afterwards
    # at most max(total, borrowed_before - 1) tokens may be out (if the total has been
    # lowered below the number borrowed, the freed token must NOT be re-granted)
    try:
        b0, t0, w0 = OLD.s
        b, t = self.borrowed_tokens, self.total_tokens
        ok = b <= max(t, b0 - 1)
        _rec("limiter_release", ok, {"borrowed_before": b0, "borrowed": b, "total": t,
                                     "waiting_before": w0})  # fmt: skip
    except Exception as e:  # noqa: BLE001
        EVALS["contract_error"] += 1
        _ERRORS.append(repr(e))

    return _lim_post(self, OLD)


# ---------------------------------------------------------------- Semaphore
def _sem_snap(self):  # noqa: ANN001, ANN202, N803
    try:
        return (self.value, self.statistics().tasks_waiting)
    except Exception as e:  # noqa: BLE001
        EVALS["contract_error"] += 1
        _ERRORS.append(repr(e))
        return None


def _sem_post(self, OLD):  # noqa: ANN001, ANN202, N803
    try:
        v0, w0 = OLD.s
        v, w = self.value, self.statistics().tasks_waiting
        ok = (
            v >= 0
            and abs(v - v0) <= 1
            and (self.max_value is None or v <= self.max_value)
            and not (v > 0 and w > 0)  # value > 0 implies nobody is queued
            and not (v > v0 and w0 > 0 and w == w0)  # incremented although a waiter is queued
        )
        return _rec("semaphore", ok, {"value_before": v0, "waiting_before": w0, "value": v,
                                      "waiting": w, "max_value": self.max_value})  # fmt: skip
    except Exception as e:  # noqa: BLE001
        EVALS["contract_error"] += 1
        _ERRORS.append(repr(e))
        return True


# ---------------------------------------------------------------- Lock
def _lock_snap(self):  # noqa: ANN001, ANN202, N803
    try:
        return (self.locked(), self.statistics().tasks_waiting)
    except Exception as e:  # noqa: BLE001
        EVALS["contract_error"] += 1
        _ERRORS.append(repr(e))
        return None


def _lock_post(self, OLD):  # noqa: ANN001, ANN202, N803
    try:
        l0, w0 = OLD.s
        st = self.statistics()
        ok = (st.locked == self.locked()) and ((st.owner is not None) == st.locked)
        # a free lock with queued tasks never occurs
        ok = ok and not (not st.locked and st.tasks_waiting > 0)
        return _rec("lock", ok, {"locked_before": l0, "waiting_before": w0, "locked": st.locked,
                                 "waiting": st.tasks_waiting})  # fmt: skip
    except Exception as e:  # noqa: BLE001
        EVALS["contract_error"] += 1
        _ERRORS.append(repr(e))
        return True


# ---------------------------------------------------------------- memory object streams
def _ms_snap(self):  # noqa: ANN001, ANN202, N803
    try:
        return self.statistics()
    except Exception as e:  # noqa: BLE001
        EVALS["contract_error"] += 1
        _ERRORS.append(repr(e))
        return None


def _ms_post(self, OLD):  # noqa: ANN001, ANN202, N803
    try:
        s0 = OLD.s
        s = self.statistics()
        ok = (
            0 <= s.current_buffer_used <= s.max_buffer_size
            # items are never buffered while a receiver is waiting
            and not (s.current_buffer_used > 0 and s.tasks_waiting_receive > 0)
        )
        _rec("memstream", ok, {"before": tuple(s0), "after": tuple(s)})
        ok2 = (
            s.open_send_streams >= 0
            and s.open_receive_streams >= 0
            and abs(s.open_send_streams - s0.open_send_streams) <= 1
            and abs(s.open_receive_streams - s0.open_receive_streams) <= 1
            # nobody stays queued for an item once the send side is fully closed
            # (senders woken by the last receive-side close deregister themselves when
            # they resume, so tasks_waiting_send may be > 0 right after that close)
            and not (s.open_send_streams == 0 and s.tasks_waiting_receive > 0)
        )
        return _rec("memstream_close", ok2, {"before": tuple(s0), "after": tuple(s)})
    except Exception as e:  # noqa: BLE001
        EVALS["contract_error"] += 1
        _ERRORS.append(repr(e))
        return True


def _ms_snap_i(self, item):  # noqa: ANN001, ANN202, N803
    try:
        return self.statistics()
    except Exception as e:  # noqa: BLE001
        EVALS["contract_error"] += 1
        _ERRORS.append(repr(e))
        return None


def _ms_post_i(self, item, OLD):  # noqa: ANN001, ANN202, N803
    return _ms_post(self, OLD)


def _wrap(f, snap, post):  # noqa: ANN001, ANN202
    return icontract.snapshot(snap, name="s")(icontract.ensure(post, error=ContractBroken)(f))


def _observed(name: str, f):  # noqa: ANN001, ANN202
    def w(self, *a, **k):  # noqa: ANN001, ANN002, ANN003, ANN202
        for cb in OBS.get(name, ()):
            cb(self, *a)

        return f(self, *a, **k)

    w.__name__ = getattr(f, "__name__", name)
    w.__doc__ = getattr(f, "__doc__", None)
    return w


def install() -> None:
    """Attach the contracts to the real classes (idempotent)."""
    global _installed
    if _installed:
        return

    _installed = True
    from anyio._backends import _asyncio as A
    from anyio.streams import memory as M

    L = A.CapacityLimiter
    L.release_on_behalf_of = _wrap(
        L.release_on_behalf_of, _lim_snap_b, _lim_post_release
    )
    L.acquire_on_behalf_of_nowait = _wrap(
        L.acquire_on_behalf_of_nowait, _lim_snap_b, _lim_post_b
    )
    prop = L.total_tokens

    def setter(self, value):  # noqa: ANN001, ANN202
        prop.fset(self, value)

    L.total_tokens = property(prop.fget, _wrap(setter, _lim_snap_v, _lim_post_v))

    S = A.Semaphore
    S.release = _wrap(S.release, _sem_snap, _sem_post)
    S.acquire_nowait = _wrap(S.acquire_nowait, _sem_snap, _sem_post)

    K = A.Lock
    K.release = _wrap(K.release, _lock_snap, _lock_post)
    K.acquire_nowait = _wrap(K.acquire_nowait, _lock_snap, _lock_post)

    R, W = M.MemoryObjectReceiveStream, M.MemoryObjectSendStream
    R.receive_nowait = _observed(
        "receive_nowait", _wrap(R.receive_nowait, _ms_snap, _ms_post)
    )
    R.close = _wrap(R.close, _ms_snap, _ms_post)
    W.send_nowait = _observed("send_nowait", _wrap(W.send_nowait, _ms_snap_i, _ms_post_i))
    W.close = _wrap(W.close, _ms_snap, _ms_post)


del math
