"""Targeted / enumerated program families for the tree checks (complement the seeded random
programs of vf/treegen.py).  Each family sweeps the small space around one hazard that the
random generator reaches only rarely:

 empty_exit_spawn   a task spawns into a group while that group, having no children, runs
                    its exit checkpoint (F11)                                        -> C01
 spawn_into_cancelled
                    a task is spawned into an already cancelled group while the host sits in
                    a shielded scope (delivery loop wound down, F10)                 -> C03
 start_into_cancelled
                    start() called by a shielded (un-cancelled) host or by a foreign task on a
                    group that was cancelled some cycles earlier (delivery wound down): the
                    child must be cancelled at its first checkpoint like any member  -> C07, C03
 failed_body_late_spawn
                    the BODY of a group fails while the group has no unfinished member; a task
                    outside the group spawns into it around its exit checkpoint: the late
                    member must be cancelled like any remaining task                 -> C02
 failure_then_shield
                    a member fails while the group is only effectively cancelled through an
                    enclosing scope, then a shield cuts that off (F12)               -> C02
 shielded_group_failure
                    a member fails in a group whose OWN scope is shielded while every other
                    task of the group sits in a shielded section (delivery winds down); they
                    then leave the section and block in ordinary code               -> C02
 swallow_and_reblock
                    a task that is runnable (bare yields) or blocked inside 1-3 nested scopes,
                    any subset of them cancelled in ONE step (outer-first / inner-first),
                    catches the cancellation and blocks again once or twice: every new wait
                    must be interrupted again                                       -> C03
 shield_sandwich    chains of 4-5 scopes A > S(shield) > M.. > B with A and B cancelled (any order
                    and timing), plain scopes or a task group with a child in between: B absorbs
                    its own cancellation, nothing crosses the shield, code after B runs  -> C04
 scope_chains       exhaustive: scope chains of depth <= 3 x every shield assignment x every
                    subset of scopes cancelled x cancel timing x canceller          -> C04
 scope_histories    sequences of 1-6 scopes entered and left one after another on one task,
                    0-5 re-deliveries before each exit, nested hand-over            -> C05
 nested_handover    chains of 3-4 scopes on one task: a deep scope is cancelled and delivered, an
                    outer one is cancelled while the host still does shielded cleanup inside
                    the deep one, never-cancelled scopes in between must relay the pending
                    uncancel count                                                  -> C05
 deadline_histories one active scope whose deadline is reassigned 2-3 times (to inf, to the
                    past, nearer, farther) at instants before / after the previously armed
                    timer would have fired                                          -> C06
 start_sweep        child = k checkpoints then started / raise / return / block, then more
                    work / raise / return, cleanup variants; caller's or group's scope
                    cancelled at every cycle, by self / sibling / agent             -> C07
 aexit_cancel_sweep cancels arriving at every cycle while the host is inside __aexit__ with
                    children finishing in the same cycle                            -> C01
 drain_spawn        a task that is NOT a member spawns into a group at every cycle around the
                    instant its last member finishes while the host is parked in __aexit__
                    (the window between the last done-callback and the host's wake-up)  -> C01
"""

from __future__ import annotations

import itertools as I

CFGS = ["stock", "eager"]


def _p(cfg: str, root: list, agents: list, fam: str) -> dict:
    return {"cfg": cfg, "root": root, "agents": agents, "profile": fam}


def empty_exit_spawn():  # noqa: ANN201
    for cfg in CFGS:
        for k in range(0, 5):  # spawner delay
            for j in range(0, 4):  # host delay before the empty group
                for m in range(0, 3):  # inner body length
                    for how in ("start_soon", "create_task"):
                        for child_body in ([["cp", 2]], [["forever"]], [["sleep", 1]]):
                            spawner = {"tid": 1, "how": "start_soon", "body": [
                                ["cp", k], ["spawn", 2, {"tid": 2, "how": how, "body": child_body}],
                            ]}  # fmt: skip
                            root = [["group", 1, [spawner], [
                                ["cp", j], ["group", 2, [], [["cp", m]] if m else []], ["cp", 3],
                            ]]]  # fmt: skip
                            yield _p(cfg, root, [], "fam:empty_exit_spawn")


def drain_spawn():  # noqa: ANN201
    for cfg in CFGS:
        for n in (1, 2, 3):  # length of the member(s) whose end drains the group
            for members in (1, 2):
                for k in range(0, n + 6):  # outside spawner's delay: sweeps across the drain
                    for order in ("spawner-first", "spawner-last"):
                        for how in ("start_soon", "create_task"):
                            for child_body in ([["cp", 3]], [["sleep", 1]], [["forever"]]):
                                late = {"tid": 9, "how": how, "body": child_body}
                                spawner = {"tid": 1, "how": "start_soon",
                                           "body": [["cp", k], ["spawn", 2, late]]}  # fmt: skip
                                inner_members = [
                                    {"tid": 3 + i, "how": "start_soon", "body": [["cp", n]]}
                                    for i in range(members)
                                ]
                                inner = ["group", 2, inner_members, []]
                                if order == "spawner-first":
                                    root = [["group", 1, [spawner], [inner, ["cp", 2]]]]
                                else:
                                    root = [["group", 1, [], [
                                        ["spawn", 1, spawner], inner, ["cp", 2]]]]  # fmt: skip

                                yield _p(cfg, root, [], "fam:drain_spawn")


def aexit_cancel_sweep():  # noqa: ANN201
    for cfg in CFGS:
        for at in range(0, 9):
            for place in ("before", "after"):
                for target in ("g1", "s1", "g2"):
                    for k in (1, 2, 3):
                        children = [
                            {"tid": 1, "how": "start_soon", "body": [["cp", k]]},
                            {"tid": 2, "how": "create_task", "body": [
                                ["cleanup", [["forever"]], 2, "reraise"]]},
                            {"tid": 3, "how": "start_soon", "body": [
                                ["cp", 1], ["spawn", 1, {"tid": 4, "how": "start_soon",
                                                         "body": [["cp", k], ["forever"]]}]]},
                        ]  # fmt: skip
                        inner = ["group", 2, [{"tid": 5, "how": "start_soon", "body": [["cp", k + 1]]}],
                                 [["cp", 1]]]  # fmt: skip
                        root = [["scope", "s1", False, None, [["group", 1, children, [inner, ["cp", 1]]]]],
                                ["cp", 2]]  # fmt: skip
                        yield _p(cfg, root, [{"at": at, "place": place, "do": ["cancel", target]}],
                                 "fam:aexit_cancel_sweep")  # fmt: skip


def spawn_into_cancelled():  # noqa: ANN201
    for cfg in CFGS:
        for wind in range(1, 4):  # cycles spent shielded before the spawn
            for stay in (0, 1, 6, 9):  # cycles the host stays shielded afterwards
                for how in ("start_soon", "create_task"):
                    for via in ("group", "outer"):
                        child = {"tid": 1, "how": how, "body": [["forever"]]}
                        shielded = ["scope", "s2", True, None,
                                    [["cp", wind], ["spawn", 1, child], ["cp", stay]]]  # fmt: skip
                        # the host either goes straight into __aexit__ or passes an
                        # un-shielded checkpoint first (it must then be interrupted by a
                        # cancellation the cancelled scope recognises as its own)
                        for after in ([], [["cp", 2]]):
                            if via == "group":
                                root = [["group", 1, [], [["cancel", "g1"], shielded] + after]]
                            else:
                                root = [["scope", "s1", False, None, [
                                    ["cancel", "s1"], ["group", 1, [], [shielded] + after]]]]  # fmt: skip

                            yield _p(cfg, root + [["cp", 1]], [], "fam:spawn_into_cancelled")


def start_into_cancelled():  # noqa: ANN201
    for cfg in CFGS:
        for wind in range(1, 4):  # cycles spent shielded before start() is called
            for via in ("group", "outer"):
                for k in (0, 1, 2):  # child's checkpoints before started()
                    for after in (["cp", 3], ["forever"], ["sleep", 2]):
                        for caller in ("shielded-host", "foreign"):
                            for rh in (False, True):
                                body = ([["cp", k]] if k else []) + [["started", 5], after]
                                child = {"tid": 1, "how": "start", "body": body}
                                if rh:
                                    child["return_handle"] = True

                                call = ["scope", "s2", True, None,
                                        [["cp", wind], ["startcall", 1, child], ["cp", 6]]]  # fmt: skip
                                if caller == "shielded-host":
                                    inner = [call]
                                    outer_members: list = []
                                else:
                                    # the host stays shielded; a task outside the group calls
                                    inner = [["scope", "s3", True, None, [["cp", wind + 8]]]]
                                    outer_members = [{"tid": 7, "how": "start_soon", "body": [call]}]

                                if via == "group":
                                    g = ["group", 1, [], [["cancel", "g1"]] + inner]
                                    root = [["group", 9, outer_members, [g, ["cp", 1]]]]
                                else:
                                    g = ["group", 1, [], inner]
                                    root = [["group", 9, outer_members, [
                                        ["scope", "s1", False, None, [["cancel", "s1"], g]],
                                        ["cp", 1]]]]  # fmt: skip

                                yield _p(cfg, root, [], "fam:start_into_cancelled")


def failed_body_late_spawn():  # noqa: ANN201
    for cfg in CFGS:
        for k in range(0, 6):  # outside spawner's delay
            for j in range(0, 4):  # host delay before the inner group
                for m in range(0, 3):  # inner body length before it raises
                    for members in (0, 1):  # a member that has already finished, or none
                        for how in ("start_soon", "create_task"):
                            for child_body in ([["cp", 4]], [["sleep", 1]], [["forever"]]):
                                late = {"tid": 9, "how": how, "body": child_body}
                                spawner = {"tid": 1, "how": "start_soon",
                                           "body": [["cp", k], ["spawn", 2, late], ["cp", 3]]}  # fmt: skip
                                inner_members = [{"tid": 3, "how": "start_soon", "body": [["return"]]}
                                                 ] if members else []  # fmt: skip
                                body = ([["cp", m]] if m else []) + [["raise", 7]]
                                root = [["scope", "s1", True, None, [
                                    ["group", 1, [spawner], [
                                        ["cp", j],
                                        ["catch_then", [["group", 2, inner_members, body]], [["cp", 1]]],
                                        ["cp", 4]]]]]]  # fmt: skip
                                yield _p(cfg, root, [], "fam:failed_body_late_spawn")


def failure_then_shield():  # noqa: ANN201
    for cfg in CFGS:
        for wait in (1, 2, 3):
            for child_delay in (0, 1):
                for blocker in (["forever"], ["sleep", 4], ["cp", 8]):
                    failing = {"tid": 1, "how": "start_soon", "body": [["cp", child_delay], ["raise", 1]]}
                    root = [["scope", "s1", False, None, [["scope", "s2", False, None, [
                        ["cancel", "s1"],
                        ["group", 1, [failing], [
                            ["scope", "s3", True, None, [["cp", wait + child_delay + 1]]],
                            ["shield", "s2", True],
                            blocker,
                        ]],
                    ]]]]]  # fmt: skip
                    yield _p(cfg, root, [], "fam:failure_then_shield")


def shielded_group_failure():  # noqa: ANN201
    for cfg in CFGS:
        for fail_at in (0, 1, 2):  # failing member's delay
            for stay in (2, 3, 5):  # cycles the others stay shielded after the failure
                for who in ("host", "sibling", "both"):
                    for blocker in (["forever"], ["sleep", 4], ["cp", 8]):
                        for when_shield in ("at-entry", "before-failure"):
                            failing = {"tid": 1, "how": "start_soon",
                                       "body": [["cp", fail_at], ["raise", 1]]}  # fmt: skip
                            section = ["scope", "s3", True, None, [["cp", fail_at + stay]]]
                            members = [failing]
                            if who in ("sibling", "both"):
                                members.append({"tid": 2, "how": "start_soon", "body": [
                                    ["scope", "s4", True, None, [["cp", fail_at + stay]]], blocker]})  # fmt: skip

                            body: list = [["shield", "g1", True]]
                            if when_shield == "before-failure":
                                body = [["cp", 0]] + body

                            if who in ("host", "both"):
                                body += [section, blocker]
                            else:
                                body += [["cp", 1]]

                            root = [["scope", "s1", False, None, [["group", 1, members, body]]],
                                    ["cp", 1]]  # fmt: skip
                            yield _p(cfg, root, [], "fam:shielded_group_failure")


def swallow_and_reblock():  # noqa: ANN201
    for cfg in CFGS:
        for depth in (1, 2, 3):
            sids = [f"s{i + 1}" for i in range(depth)]
            for subset in range(1, 1 << depth):
                victims = [sids[i] for i in range(depth) if subset >> i & 1]
                for order in ("outer-first", "inner-first"):
                    if len(victims) == 1 and order == "inner-first":
                        continue

                    cancels = [["cancel", v] for v in (victims if order == "outer-first"
                                                       else reversed(victims))]  # fmt: skip
                    for block in (["forever"], ["cp", 40], ["sleep", 50]):
                        for swallow in (1, 2):
                            for at in (1, 2, 3):
                                for who in ("sibling", "agent-before", "agent-after"):
                                    body: list = [["wait", "e0"]]
                                    for _ in range(swallow):
                                        body = [["catch_then", [block], body]]

                                    for i in reversed(range(depth)):
                                        body = [["scope", sids[i], False, None, body + [["cp", 1]]]]

                                    agents = []
                                    sibling_body: list = [["cp", 2]]
                                    if who == "sibling":
                                        sibling_body = [["cp", at]] + cancels + [["cp", 2]]
                                    else:
                                        agents = [{"at": at + 1, "place": who.split("-")[1], "do": c}
                                                  for c in cancels]  # fmt: skip

                                    root = [["group", 9, [
                                        {"tid": 1, "how": "start_soon", "body": body + [["cp", 2]]},
                                        {"tid": 2, "how": "start_soon", "body": sibling_body},
                                    ], [["cp", 1]]]]  # fmt: skip
                                    yield _p(cfg, root, agents, "fam:swallow_and_reblock")


def shield_sandwich():  # noqa: ANN201
    for cfg in CFGS:
        for mids in (1, 2):
            for a_when in ("pre", "before-S", 1, 2):  # when A is cancelled
                for b_when in ("inside", 2, 3, "deadline"):  # when B is cancelled
                    for via in ("scopes", "group"):
                        agents = []
                        b_dl = 1 if b_when == "deadline" else None
                        inner: list = ([["cancel", "b"]] if b_when == "inside" else []) + [
                            ["sleep", 3] if b_when == "deadline" else ["forever"]]  # fmt: skip
                        body: list = [["scope", "b", False, b_dl, inner], ["cp", 2]]
                        for i in range(mids):
                            body = [["scope", f"m{i}", False, None, body + [["cp", 1]]]]

                        if via == "group":
                            child = {"tid": 1, "how": "start_soon", "body": body}
                            body = [["group", 1, [child], [["cp", 1]]]]

                        body = [["scope", "s", True, None, body + [["cp", 2]]]]
                        pre = []
                        if a_when == "pre":
                            pre = [["prepare", "a"], ["cancel", "a"]]
                            chain = [["scope", "a", False, None, body + [["cp", 1]]]]
                        elif a_when == "before-S":
                            chain = [["scope", "a", False, None, [["cancel", "a"]] + body + [["cp", 1]]]]
                        else:
                            chain = [["scope", "a", False, None, body + [["cp", 1]]]]
                            agents.append({"at": a_when, "place": "after", "do": ["cancel", "a"]})

                        if isinstance(b_when, int):
                            agents.append({"at": b_when, "place": "after", "do": ["cancel", "b"]})

                        root = [["group", 9, [
                            {"tid": 5, "how": "start_soon", "body": pre + chain + [["cp", 2]]},
                            {"tid": 6, "how": "start_soon", "body": [["cp", 6], ["sleep", 1]]},
                        ], [["cp", 1]]]]  # fmt: skip
                        yield _p(cfg, root, agents, "fam:shield_sandwich")


def scope_chains():  # noqa: ANN201
    """depth<=3 chains, every shield assignment, every non-empty subset cancelled, timing in
    {before entry, before the block, while blocked at cycle 1,2,3}, canceller in {self,
    sibling task, agent}; a bystander task outside the subtree must finish undisturbed"""
    for cfg in CFGS:
        for depth in (1, 2, 3):
            sids = [f"s{i + 1}" for i in range(depth)]
            for shields in I.product([False, True], repeat=depth):
                for subset in range(1, 1 << depth):
                    victims = [sids[i] for i in range(depth) if subset >> i & 1]
                    for timing in ("pre", "inside", 1, 2, 3):
                        for who in ("self", "sibling", "agent"):
                            if timing in ("pre", "inside") and who != "self":
                                continue

                            cancels = [["cancel", v] for v in victims]
                            body: list = [["forever"]] if timing != "inside" else cancels + [["forever"]]
                            for i in reversed(range(depth)):
                                body = [["scope", sids[i], shields[i], None, body + [["cp", 1]]]]

                            pre = []
                            if timing == "pre":
                                pre = [["prepare", s] for s in sids] + cancels

                            agents = []
                            sibling_body: list = [["cp", 2]]
                            if isinstance(timing, int):
                                if who == "agent":
                                    agents = [{"at": timing + 1, "place": pl, "do": c}
                                              for c in cancels for pl in ("after",)]  # fmt: skip
                                elif who == "sibling":
                                    sibling_body = [["cp", timing]] + cancels + [["cp", 2]]
                                else:
                                    continue  # a blocked task cannot cancel anything itself

                            root = [["group", 9, [
                                {"tid": 1, "how": "start_soon", "body": pre + body + [["cp", 2]]},
                                {"tid": 2, "how": "start_soon", "body": sibling_body},
                                {"tid": 3, "how": "start_soon", "body": [["cp", 6], ["sleep", 1]]},
                            ], [["cp", 1]]]]  # fmt: skip
                            yield _p(cfg, root, agents, "fam:scope_chains")


def scope_histories():  # noqa: ANN201
    for cfg in CFGS:
        for n in (1, 2, 3, 4):
            for redeliver in (0, 1, 2, 3, 5):
                for nested in (False, True):
                    for dl in (False, True):
                        ops: list = []
                        for i in range(n):
                            sid = f"s{i + 1}"
                            inner: list = [["cancel", sid]]
                            # each caught re-delivery adds one native cancel() to undo
                            blk: list = [["cp", 1]]
                            for _ in range(redeliver):
                                blk = [["catch_then", blk, [["cp", 1]]]]

                            inner += blk
                            if nested:
                                inner = [["scope", f"n{i + 1}", False, None, inner]]

                            ops.append(["scope", sid, False, 2 if dl else None, inner])
                            ops.append(["cp", 2])
                            ops.append(["sleep", 0.5])

                        yield _p(cfg, ops, [], "fam:scope_histories")


def nested_handover():  # noqa: ANN201
    for cfg in CFGS:
        for depth in (2, 3, 4):
            sids = [f"s{i + 1}" for i in range(depth)]
            for deep in range(1, depth):
                for outer in range(0, deep):
                    for cleanup_len in (2, 4):
                        for a in (1, 2):
                            for d in range(0, cleanup_len + 2):
                                for place in ("before", "after"):
                                    for redeliver in (0, 2):
                                        blk: list = [["cleanup", [["forever"]], cleanup_len, "reraise"]]
                                        for _ in range(redeliver):
                                            blk = [["catch_then", blk, [["cp", 1]]]]

                                        body = blk
                                        for i in reversed(range(depth)):
                                            body = [["scope", sids[i], False, None, body + [["cp", 1]]]]

                                        agents = [
                                            {"at": a, "place": place, "do": ["cancel", sids[deep]]},
                                            {"at": a + d, "place": place, "do": ["cancel", sids[outer]]},
                                        ]
                                        yield _p(cfg, body + [["cp", 2], ["sleep", 0.5]], agents,
                                                 "fam:nested_handover")  # fmt: skip


def fresh_cancellation():  # noqa: ANN201
    """the host of a scope / group (or a member) catches the cancellation and raises a NEW,
    implicitly chained CancelledError: scopes and groups still absorb exactly their own"""
    for cfg in CFGS:
        for kind in ("scope", "group", "nested-group"):
            for depth in (1, 2):
                for at in (1, 2, 3):
                    for place in ("before", "after"):
                        blk: list = [["forever"]]
                        for _ in range(depth):
                            # (nothing awaited in the handler: an await there would be
                            # interrupted again and the fresh exception never raised)
                            blk = [["catch_then", blk, [], "fresh"]]

                        sib = {"tid": 2, "how": "start_soon", "body": [["sleep", 2]]}
                        if kind == "scope":
                            root = [["scope", "s1", False, None, blk], ["cp", 2]]
                            target = "s1"
                        elif kind == "group":
                            child = {"tid": 1, "how": "start_soon", "body": [["forever"]]}
                            root = [["group", 1, [child], blk], ["cp", 2]]
                            target = "g1"
                        else:
                            inner_child = {"tid": 3, "how": "start_soon", "body": [["forever"]]}
                            mid = {"tid": 1, "how": "start_soon",
                                   "body": [["group", 1, [inner_child], blk], ["cp", 2]]}  # fmt: skip
                            root = [["group", 0, [mid, sib], [["cp", 1]]], ["cp", 1]]
                            target = "g1"

                        yield _p(cfg, root, [{"at": at, "place": place, "do": ["cancel", target]}],
                                 "fam:fresh_cancellation")  # fmt: skip


def late_shield():  # noqa: ANN201
    """an enclosing scope is cancelled, a task under it enters checkpoint_if_cancelled() (or
    an ordinary checkpoint) and somebody raises a shield in between, at every cycle around
    it: the task is either interrupted or goes on - it never gets stuck"""
    for cfg in CFGS:
        for k in (0, 1, 2):
            for opk in ("cic", "cp"):
                for a in (0, 1, 2, 3):
                    for d in (0, 1, 2):
                        for place in ("before", "after"):
                            for target in ("g1", "s1"):
                                inner = [[opk, 2], ["cp", 1]]
                                cbody = [["cp", k]] + ([["scope", "s1", False, None, inner]]
                                                       if target == "s1" else inner)  # fmt: skip
                                child = {"tid": 1, "how": "start_soon", "body": cbody}
                                root = [["scope", "s0", False, None,
                                         [["group", 1, [child], [["cp", 4]]], ["cp", 1]]], ["cp", 2]]  # fmt: skip
                                yield _p(cfg, root,
                                         [{"at": a, "place": place, "do": ["cancel", "s0"]},
                                          {"at": a + d, "place": place, "do": ["shield", target, True]}],
                                         "fam:late_shield")  # fmt: skip

        # the child is spawned into the already cancelled scope (the delivery skips a task
        # that has not started yet), starts, enters the operation - and then the shield goes up
        for opk in ("cic", "cp"):
            for n in (1, 2, 3):
                for at in range(0, 5):
                    for place in ("before", "after"):
                        for target in ("g1", "s1"):
                            inner = [[opk, n], ["cp", 1]]
                            cbody = [["scope", "s1", False, None, inner]] if target == "s1" else inner
                            child = {"tid": 1, "how": "start_soon", "body": cbody}
                            for host_shielded in (False, True):
                                # (a host that waits behind a shield of its own is not
                                # interrupted, so the group is not cancelled by its body)
                                hbody = [["scope", "sh", True, None, [["cp", 5]]]] if host_shielded else [["cp", 4]]
                                root = [["scope", "s0", False, None,
                                         [["cancel", "s0"], ["group", 1, [child], hbody], ["cp", 1]]],
                                        ["cp", 2]]  # fmt: skip
                                yield _p(cfg, root, [{"at": at, "place": place, "do": ["shield", target, True]}],
                                         "fam:late_shield")  # fmt: skip


def shielded_checkpoint_window():  # noqa: ANN201
    """a task sits in cancel_shielded_checkpoint() while its scope, or an ancestor of it, gets
    cancelled by somebody else at every cycle around it: the yield is never interrupted, the
    cancellation arrives at the next ordinary checkpoint"""
    for cfg in CFGS:
        for lead in (0, 1, 2):
            for n in (1, 2, 3):
                for target in ("s1", "s0"):
                    for at in range(0, lead + n + 3):
                        for place in ("before", "after"):
                            for in_child in (False, True):
                                body: list = [["scope", "s0", False, None, [
                                    ["scope", "s1", False, None, [["cp", lead], ["scp", n], ["cp", 2]]],
                                    ["cp", 1]]]]  # fmt: skip
                                if in_child:
                                    child = {"tid": 1, "how": "start_soon", "body": body}
                                    body = [["group", 1, [child], [["cp", 1]]]]

                                yield _p(cfg, body + [["cp", 2]],
                                         [{"at": at, "place": place, "do": ["cancel", target]}],
                                         "fam:shielded_checkpoint_window")  # fmt: skip


def held_request_handover():  # noqa: ANN201
    """the host of a task group holds 1-2 native cancellation requests (non-zero
    Task.cancelling() baseline); a child's own scope cancels itself and cannot absorb because
    the group gets cancelled too, at every cycle around it; also the same with the host's own
    nested scopes.  The host's count has to be back at the baseline after the group."""
    for cfg in CFGS:
        for held in (1, 2):
            for redeliver in (0, 2):
                for nest in (1, 2):
                    inner: list = [["cancel", "s1"], ["cleanup", [["forever"]], 2, "reraise"]]
                    for _ in range(redeliver):
                        inner = [["catch_then", inner, [["cp", 1]]]]

                    cbody: list = [["scope", "s1", False, None, inner + [["cp", 1]]]]
                    if nest == 2:
                        cbody = [["scope", "s0", False, None, cbody + [["cp", 1]]]]

                    child = {"tid": 1, "how": "start_soon", "body": cbody + [["cp", 1]]}
                    for a in range(0, 6):
                        for place in ("before", "after"):
                            for holder in ("root", "member"):
                                grp = [["hold", held], ["group", 1, [child], [["sleep", 1]]], ["cp", 2]]
                                if holder == "member":
                                    mid = {"tid": 9, "how": "start_soon", "body": grp}
                                    grp = [["group", 0, [mid], [["cp", 1]]], ["cp", 1]]

                                yield _p(cfg, grp + [["sleep", 0.5]],
                                         [{"at": a, "place": place, "do": ["cancel", "g1"]}],
                                         "fam:held_request_handover")  # fmt: skip

            # the same baseline under the host's own scope histories
            for depth in (1, 2, 3):
                for a in (1, 2, 3):
                    body: list = [["cleanup", [["forever"]], 2, "reraise"]]
                    for i in reversed(range(depth)):
                        body = [["scope", f"s{i + 1}", False, None, body + [["cp", 1]]]]

                    agents = [{"at": a + i, "place": "after", "do": ["cancel", f"s{depth - i}"]}
                              for i in range(depth)]  # fmt: skip
                    yield _p(cfg, [["hold", held]] + body + [["cp", 2], ["sleep", 0.5]], agents,
                             "fam:held_request_handover")  # fmt: skip


NINF = float("-inf")


def ninf_deadlines():  # noqa: ANN201
    """a deadline of minus infinity (what current_effective_deadline() reports inside a
    cancelled scope) has passed at any time: constructor, helpers, setter, group scopes"""
    for cfg in CFGS:
        for shield in (False, True):
            for inner in ([["sleep", 1], ["probe"]], [["forever"]], [["cp", 3], ["probe"]]):
                yield _p(cfg, [["scope", "s1", shield, NINF, inner + [["cp", 1]]], ["probe"], ["cp", 2]],
                         [], "fam:ninf_deadlines")  # fmt: skip
                for helper in ("move_on_after", "move_on_at", "fail_after", "fail_at"):
                    sid = ("f" if helper.startswith("fail") else "m") + "1"
                    blk = [["tscope", sid, helper, NINF, shield, inner + [["cp", 1]]], ["probe"]]
                    yield _p(cfg, [["catch_then", blk, [["cp", 1]]], ["cp", 2]], [],
                             "fam:ninf_deadlines")  # fmt: skip

                for at in (0.5, 1.5):
                    yield _p(cfg, [["scope", "s1", shield, 3, [["probe"], ["sleep", 1], ["probe"],
                                                                ["sleep", 1], ["probe"]]], ["cp", 2]],
                             [{"t": at, "place": "after", "do": ["deadline", "s1", NINF]}],
                             "fam:ninf_deadlines")  # fmt: skip
                    child = {"tid": 1, "how": "start_soon", "body": [["sleep", 2], ["probe"]]}
                    yield _p(cfg, [["catch_then", [["group", 1, [child], [["sleep", 2], ["probe"]]]],
                                    [["cp", 1]]], ["cp", 2]],
                             [{"t": at, "place": "after", "do": ["deadline", "g1", NINF]}],
                             "fam:ninf_deadlines")  # fmt: skip


def deadline_histories():  # noqa: ANN201
    values = (None, -1, 0.25, 1.25, 3, NINF)
    plans = [(0.5, 1.5), (0.5, 2.5), (1.5, 2.5), (0.5, 1.5, 2.5)]
    for cfg in CFGS:
        for d0 in (1, 2, None):
            for times in plans:
                for vals in I.product(values, repeat=len(times)):
                    for helper in (None, "fail_after"):
                        if helper and len(times) == 3:
                            continue

                        body: list = [["probe"]]
                        for _ in range(5):
                            body += [["sleep", 1], ["probe"]]

                        sid = "f1" if helper else "s1"
                        if helper:
                            if d0 is None:
                                continue

                            blk = [["tscope", sid, helper, d0, False, body], ["probe"]]
                        else:
                            blk = [["scope", sid, False, d0, body], ["probe"]]

                        agents = [{"t": t, "place": "after", "do": ["deadline", sid, v]}
                                  for t, v in zip(times, vals)]  # fmt: skip
                        yield _p(cfg, [["catch_then", blk, [["cp", 1]]], ["sleep", 0.5]], agents,
                                 "fam:deadline_histories")  # fmt: skip


def start_sweep():  # noqa: ANN201
    for cfg in CFGS:
        for k in (0, 1, 2):
            for first in ("started", "raise", "return", "forever", "shielded-twice"):
                for after in ("more", "raise", "return", "forever", "again"):
                    if first != "started" and after != "more":
                        continue

                    for cleanup in ("none", "shielded", "boom"):
                        for target in ("caller", "group", "none"):
                            for at in ((None,) if target == "none" else range(0, 7)):
                                for rh in (False, True):
                                    body: list = [["cp", k]] if k else []
                                    if first == "started":
                                        body.append(["started", None if k == 1 else 5])
                                        body += {"more": [["cp", 2]], "raise": [["cp", 1], ["raise", 2]],
                                                 "return": [["return"]], "forever": [["forever"]],
                                                 # started() again some cycles later (from the
                                                 # cleanup path when cancelled meanwhile)
                                                 "again": [["cleanup", [["cp", 4], ["started", 8]], 1,
                                                            "reraise"], ["cp", 1]]}[after]  # fmt: skip
                                    elif first == "shielded-twice":
                                        # both started() calls may come after the caller has
                                        # been cancelled (the child shields itself meanwhile)
                                        body = [["scope", "c1", True, None, [
                                            ["cp", k + 2], ["started", 5], ["cp", 1], ["started", 8],
                                            ["cp", 1]]]]  # fmt: skip
                                    elif first == "raise":
                                        body.append(["raise", 1])
                                    elif first == "return":
                                        body.append(["return"])
                                    else:
                                        body += [["forever"], ["started", 7]]

                                    if cleanup == "shielded":
                                        body = [["cleanup", body, 2, "reraise"]]
                                    elif cleanup == "boom":
                                        body = [["cleanup", body, 1, "boom"]]

                                    child = {"tid": 1, "how": "start", "body": body}
                                    if rh:
                                        child["return_handle"] = True

                                    sib = {"tid": 2, "how": "start_soon", "body": [["cp", 9]]}
                                    agents = []
                                    if target != "none":
                                        agents = [{"at": at, "place": "after", "do": [
                                            "cancel", "s1" if target == "caller" else "g1"]}]  # fmt: skip

                                    # the caller of start() is the root task inside s1
                                    root = [["group", 1, [sib], [
                                        ["scope", "s1", False, None, [["startcall", 1, child], ["cp", 2]]],
                                        ["cp", 1],
                                    ]]]  # fmt: skip
                                    yield _p(cfg, root, agents, "fam:start_sweep")
                                    if rh or cleanup == "boom":
                                        continue

                                    # ... inside a SHIELDED scope: a cancelled group does not
                                    # reach the caller, the child's own exception must
                                    root = [["group", 1, [sib], [
                                        ["scope", "s1", True, None, [["startcall", 1, child], ["cp", 2]]],
                                        ["cp", 1],
                                    ]]]  # fmt: skip
                                    yield _p(cfg, root, agents, "fam:start_sweep")
                                    # ... or a task OUTSIDE the group (member of an outer one)
                                    starter = {"tid": 7, "how": "start_soon", "body": [
                                        ["cp", 1],
                                        ["scope", "s1", False, None, [["startcall", 1, child], ["cp", 2]]],
                                    ]}  # fmt: skip
                                    root = [["group", 9, [starter], [
                                        ["group", 1, [sib], [["cp", 7]]], ["cp", 1]]]]  # fmt: skip
                                    yield _p(cfg, root, agents, "fam:start_sweep")


def deadline_nests():  # noqa: ANN201
    """exhaustive: nests of <= 3 deadline scopes x shields x deadlines from a 6-point grid
    placed before / between / after 1-3 sleeps of 1 s; variants with a reassignment"""
    grid = [0, 0.5, 1, 1.5, 2.5, None]
    for cfg in CFGS:
        for depth in (1, 2, 3):
            for dls in I.product(grid, repeat=depth):
                for shields in I.product([False, True], repeat=depth):
                    if depth == 3 and sum(shields) > 1:
                        continue

                    for nsleep in (1, 2, 3):
                        if depth == 3 and nsleep == 2:
                            continue

                        for variant in ("plain", "helpers", "reassign"):
                            if variant == "reassign" and depth > 2:
                                continue

                            body: list = [["probe"]]
                            for _ in range(nsleep):
                                body += [["sleep", 1], ["probe"]]

                            for i in reversed(range(depth)):
                                sid = f"s{i + 1}"
                                if variant == "helpers":
                                    helper = ("fail_after", "move_on_after", "fail_at")[i % 3]
                                    sid = ("f" if helper.startswith("fail") else "m") + str(i + 1)
                                    body = [["tscope", sid, helper, dls[i], shields[i],
                                             body + [["cp", 1]]], ["probe"]]  # fmt: skip
                                else:
                                    body = [["scope", sid, shields[i], dls[i],
                                             body + [["cp", 1]]], ["probe"]]  # fmt: skip

                            agents = []
                            if variant == "reassign":
                                for new in (0.25, 2, None, -1):
                                    agents = [{"t": 0.75, "place": "after",
                                               "do": ["deadline", "s1", new]}]  # fmt: skip
                                    yield _p(cfg, [["catch_then", body, [["cp", 1]]], ["sleep", 0.5]],
                                             agents, "fam:deadline_nests")  # fmt: skip
                            else:
                                yield _p(cfg, [["catch_then", body, [["cp", 1]]], ["sleep", 0.5]],
                                         agents, "fam:deadline_nests")  # fmt: skip


def start_sweep_uncancelled_caller():  # noqa: ANN201
    """the slice of start_sweep in which the caller of start() is not reached by the group's
    cancellation (shielded, or a task outside the group) and the group gets cancelled: the
    block must end quietly / with exactly the real failures                          -> C02"""
    for p in start_sweep():
        root = p["root"]
        foreign = root[0][1] == 9
        shielded = not foreign and root[0][3][0][2] is True
        if (foreign or shielded) and p["agents"] and p["agents"][0]["do"][1] == "g1":
            yield p
