"""C01 under NATIVE cancellation of the host (what asyncio.timeout() / Task.cancel() around a
task group do): the host of a group is natively cancelled while it is inside ``__aexit__`` -
in the exit checkpoint of a group without children, or in the wait loop - and, in the same
loop iteration, another party spawns a child into the group.  Whatever the block raises, at
the moment it ends every task ever started in the group is done and takes no further step.

A second engine next to the tree interpreter (whose shadow model knows AnyIO cancellation
only).  Real loops through vf.loops (stock / eager virtual-time, uvloop).
"""

from __future__ import annotations

import asyncio
from typing import Any

from .collect import sig_of
from .loops import BusyLoop, Deadlock, run


async def scenario(p: dict) -> dict:
    import anyio
    from anyio import create_task_group

    loop = asyncio.get_running_loop()
    obs: dict = {"children": [], "steps_after_exit": 0, "exited": False}

    async def child(i: int) -> None:
        rec = {"i": i, "state": "running"}
        obs["children"].append(rec)
        try:
            for _ in range(p["child_steps"]):
                await anyio.sleep(0)
                if obs["exited"]:
                    obs["steps_after_exit"] += 1

            if p["child_blocks"]:
                await anyio.sleep_forever()

            rec["state"] = "returned"
        except BaseException as e:  # noqa: BLE001
            rec["state"] = type(e).__name__
            raise

    async def host() -> None:
        me = asyncio.current_task()
        tg = create_task_group()
        try:
            async with tg:
                for i in range(p["members"]):
                    tg.start_soon(child, i)

                for _ in range(p["body_cp"]):
                    await anyio.sleep(0)

                def intrude(left: int) -> None:
                    if left > 0:
                        loop.call_soon(intrude, left - 1)
                        return

                    if p["spawn"]:
                        try:
                            tg.start_soon(child, 100)
                            obs["spawned_late"] = True
                        except RuntimeError:
                            obs["spawn_refused"] = True

                    me.cancel()

                loop.call_soon(intrude, p["delay"])
                if p["body_raises"]:
                    raise KeyError("body")
        except BaseException as e:  # noqa: BLE001
            obs["block_raised"] = type(e).__name__
        finally:
            obs["exited"] = True
            obs["handles_done"] = [c["state"] for c in obs["children"]]
            obs["alive_at_exit"] = [c["i"] for c in obs["children"] if c["state"] == "running"]

        # give an orphan the chance to show itself
        for _ in range(6):
            try:
                await asyncio.sleep(0)
            except asyncio.CancelledError:
                pass

    t = loop.create_task(host())
    await asyncio.wait([t])
    return obs


def cases():  # noqa: ANN201
    for cfg in ("stock", "eager", "uvloop"):
        for members in (0, 1):
            for spawn in (True, False):
                for body_raises in (False, True):
                    for delay in (0, 1, 2):
                        for child_blocks in (False, True):
                            yield {"t": "native_exit", "cfg": cfg, "members": members, "spawn": spawn,
                                   "body_raises": body_raises, "delay": delay, "body_cp": 1,
                                   "child_steps": 4, "child_blocks": child_blocks}  # fmt: skip


def execute(case: dict) -> dict:
    viol: list = []
    out: dict = {"viol": viol, "windows": {}, "nontrivial": True}

    async def main() -> Any:
        return await scenario(case)

    try:
        obs = run(main, config=case["cfg"])
    except Deadlock:
        obs = {"DEADLOCK": True}
    except BusyLoop:
        obs = {"BUSYLOOP": True}
    except BaseException as e:  # noqa: BLE001
        obs = {"escaped": repr(e)[:200]}

    out["windows"]["native_cancel_of_host_in_aexit"] = 1
    if obs.get("spawned_late"):
        out["windows"]["child_spawned_while_host_natively_cancelled_in_aexit"] = 1

    if "children" not in obs:
        viol.append(("C01", "native-exit-scenario-did-not-complete", obs))
    else:
        if obs["alive_at_exit"]:
            viol.append(("C01", "member-alive-when-the-block-ended", obs))

        if obs["steps_after_exit"]:
            viol.append(("C01", "member-took-a-step-after-the-block-ended", obs))

    out["sig"] = sig_of([case, {k: v for k, v in obs.items() if k != "children"}])
    out["log_tail"] = [obs]
    return out
