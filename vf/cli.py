"""./check front end: shards a check over subprocesses, merges, judges, writes evidence.

Usage:
    ./check --setup
    ./check C09 [--tier quick|thorough] [--seed N] [--jobs N]
    ./check C09 --replay replays/C09-xxxx.json
    ./check all [--tier quick]

Exit status: 0 held on everything explored (KNOWN-FINDING lines may be printed),
1 violation (prints ``VIOLATION property=<id> replay=<path>``), 2 inconclusive.
"""

from __future__ import annotations

import argparse
import fcntl
import importlib
import json
import os
import subprocess
import sys
import tempfile
import time
from concurrent.futures import ThreadPoolExecutor
from pathlib import Path

from .collect import Collector, sig_of

VERIF = Path(__file__).resolve().parent.parent
PY = os.environ.get("VERIF_PYTHON", "/venv/bin/python")
WHEELS = "/opt/veriftools/wheels"
ALL = [f"C{i:02d}" for i in range(1, 21)]


def repo_path() -> str:
    return os.environ.get("VERIF_REPO", "/repo")


def ensure_deps() -> None:
    deps = VERIF / ".deps"
    if (deps / "icontract" / "__init__.py").exists():
        return

    lock = VERIF / ".deps.lock"
    with open(lock, "w") as fh:
        fcntl.flock(fh, fcntl.LOCK_EX)
        try:
            if (deps / "icontract" / "__init__.py").exists():
                return

            cmd = [
                PY, "-m", "pip", "install", "--quiet", "--no-index", "--find-links",
                WHEELS, "--target", str(deps), "icontract",
            ]  # fmt: skip
            env = dict(os.environ, PIP_NO_INDEX="1", PIP_DISABLE_PIP_VERSION_CHECK="1")
            subprocess.run(cmd, check=True, env=env, stdout=subprocess.DEVNULL)
        finally:
            fcntl.flock(fh, fcntl.LOCK_UN)


def child_env() -> dict:
    env = dict(os.environ)
    env["PYTHONPATH"] = f"{repo_path()}/src:{VERIF}"
    env["PYTHONDONTWRITEBYTECODE"] = "1"
    env["PYTHONHASHSEED"] = "0"
    env["VERIF_REPO"] = repo_path()
    env["VERIF_DIR"] = str(VERIF)
    env.pop("PYTHONWARNINGS", None)
    return env


def load_check(pid: str):  # noqa: ANN201
    return importlib.import_module(f"vf.checks.{pid.lower()}")


def run_one_shard(pid: str, desc: dict, timeout: float, workdir: str, idx: int) -> dict:
    inp = os.path.join(workdir, f"in{idx}.json")
    out = os.path.join(workdir, f"out{idx}.json")
    with open(inp, "w") as fh:
        json.dump({"property": pid, "desc": desc}, fh)

    cmd = [PY, "-X", "faulthandler", "-m", "vf.shard", inp, out]
    t0 = time.monotonic()
    try:
        p = subprocess.run(
            cmd,
            env=child_env(),
            cwd=str(VERIF),
            timeout=timeout,
            stdout=subprocess.PIPE,
            stderr=subprocess.STDOUT,
            text=True,
        )
    except subprocess.TimeoutExpired as e:
        tail = (e.stdout or "")[-1500:] if isinstance(e.stdout, str) else ""
        return {"_fail": f"shard {idx} exceeded its {timeout:.0f}s watchdog", "_out": tail}

    if p.returncode != 0 or not os.path.exists(out):
        return {
            "_fail": f"shard {idx} crashed (exit {p.returncode})",
            "_out": p.stdout[-3000:],
        }

    with open(out) as fh:
        res = json.load(fh)

    res["_wall"] = time.monotonic() - t0
    return res


def load_known() -> list[dict]:
    p = VERIF / "known_findings.json"
    if not p.exists():
        return []

    return json.loads(p.read_text()).get("findings", [])


def run_check(
    pid: str, tier: str, seed: int, jobs: int, replay: str | None, evidence: bool = True
) -> int:
    t0 = time.monotonic()
    mod = load_check(pid)
    if replay:
        doc = json.loads(Path(replay).read_text())
        descs = [{"replay": doc["case"], "tier": tier, "seed": seed}]
    else:
        descs = mod.shards(tier, seed)

    timeout = getattr(mod, "SHARD_TIMEOUT", {"quick": 240, "thorough": 1500})[tier]
    total = Collector()
    fails: list[dict] = []
    os.makedirs(VERIF / ".work", exist_ok=True)
    with tempfile.TemporaryDirectory(dir=VERIF / ".work") as wd:
        with ThreadPoolExecutor(max_workers=jobs) as ex:
            futs = [
                ex.submit(run_one_shard, pid, d, timeout, wd, i)
                for i, d in enumerate(descs)
            ]
            for f in futs:
                r = f.result()
                if "_fail" in r:
                    fails.append(r)
                else:
                    total.merge_json(r)

    for f in fails:
        total.inconclusive_because(f["_fail"])
        sys.stderr.write(f"--- {f['_fail']}\n{f.get('_out', '')}\n")

    if hasattr(mod, "finish") and not replay:
        mod.finish(total, tier)

    # ---- judge violations against the committed known-findings list ------------------
    known = [k for k in load_known() if k["property"] == pid and k["status"] == "open"]
    known_by_key = {k["key"]: k for k in known}
    hit_known: dict[str, int] = {}
    real: list[dict] = []
    for v in total.violations:
        m = v.get("mechanism")
        if m is not None and m in known_by_key:
            hit_known[m] = hit_known.get(m, 0) + 1
        else:
            real.append(v)

    # counters tell the full numbers (only a few witnesses are kept per shard)
    n_unlisted = sum(
        c for k, c in total.counters.items() if k.startswith("unlisted_violation")
    )

    wall = time.monotonic() - t0
    if not replay and evidence:
        write_evidence(mod, pid, tier, seed, total, wall, len(real), hit_known, descs)

    for key, n in hit_known.items():
        k = known_by_key[key]
        print(f"KNOWN-FINDING: property={pid} {k['what']} [key={key}, witnesses kept={n}]")

    status = 0
    if real:
        (VERIF / "replays").mkdir(exist_ok=True)
        seen = set()
        for v in real:
            doc = {
                "property": pid,
                "clause": v["clause"],
                "detail": v["detail"],
                "case": v["case"],
                "tier": tier,
                "seed": seed,
                "repo": repo_path(),
            }
            s = sig_of([v["clause"], v["case"]])
            if s in seen:
                continue

            seen.add(s)
            path = VERIF / "replays" / f"{pid}-{s}.json"
            path.write_text(json.dumps(doc, indent=1, default=repr))
            if len(seen) <= 6:
                print(f"VIOLATION property={pid} replay={path}")
                print(f"  clause={v['clause']} detail={json.dumps(v['detail'], default=repr)[:600]}")

        status = 1
    elif total.inconclusive:
        for r in total.inconclusive:
            print(f"INCONCLUSIVE property={pid} reason={r}")

        status = 2

    summary = {
        "property": pid,
        "tier": tier,
        "seed": seed,
        "evaluations": total.evaluations,
        "distinct_signatures": len(total.sigs),
        "distinct_nontrivial": len(total.nontrivial),
        "violations": len(real),
        "violation_events": total.violation_count,
        "known_finding_hits": hit_known,
        "wall_s": round(wall, 1),
        "status": {0: "held", 1: "VIOLATED", 2: "inconclusive"}[status],
    }
    del n_unlisted
    print(json.dumps(summary))
    return status


def write_evidence(mod, pid, tier, seed, total, wall, nviol, hit_known, descs) -> None:  # noqa: ANN001
    cov = {
        "evaluations": total.evaluations,
        "distinct_nontrivial": len(total.nontrivial),
        "distinct_signatures": len(total.sigs),
        "rule": mod.RULE,
        "samples": total.samples[:3],
        "exhaustive": False,
        "shards": len(descs),
        "counters": dict(sorted(total.counters.items())),
        "maxima": total.maxima,
        "observed_sets": {k: sorted(v, key=repr)[:60] for k, v in total.sets.items()},
        "known_finding_hits": hit_known,
        "inconclusive_reasons": total.inconclusive,
        "repo": repo_path(),
    }
    if hasattr(mod, "extra_coverage"):
        cov.update(mod.extra_coverage(total, tier))

    ev = {
        "property_id": pid,
        "tier": tier,
        "seed": seed,
        "level": getattr(mod, "LEVEL", "exploration"),
        "coverage": cov,
        "assumptions": getattr(mod, "ASSUMPTIONS", []),
        "wall_s": round(wall, 2),
        "violations": nviol,
    }
    d = VERIF / "evidence"
    d.mkdir(exist_ok=True)
    tmp = d / f".{pid}.json.tmp"
    tmp.write_text(json.dumps(ev, indent=1, default=repr))
    os.replace(tmp, d / f"{pid}.json")


def main(argv: list[str] | None = None) -> int:
    ap = argparse.ArgumentParser(prog="check")
    ap.add_argument("property", nargs="?")
    ap.add_argument("--setup", action="store_true")
    ap.add_argument("--tier", default=os.environ.get("VERIF_TIER", "quick"))
    ap.add_argument("--seed", type=int, default=int(os.environ.get("VERIF_SEED", "0")))
    ap.add_argument("--jobs", type=int, default=int(os.environ.get("VERIF_JOBS", "16")))
    ap.add_argument("--replay")
    ap.add_argument("--no-evidence", action="store_true")
    a = ap.parse_args(argv)
    if a.tier not in ("quick", "thorough"):
        ap.error("tier must be quick or thorough")

    ensure_deps()
    if a.setup:
        print("setup ok")
        return 0

    if not a.property:
        ap.error("property id required")

    if a.property.lower() == "all":
        worst = 0
        for pid in ALL:
            try:
                load_check(pid)
            except ModuleNotFoundError:
                continue

            worst = max(worst, run_check(pid, a.tier, a.seed, a.jobs, None, not a.no_evidence))

        return worst

    return run_check(
        a.property.upper(), a.tier, a.seed, a.jobs, a.replay, not a.no_evidence
    )


if __name__ == "__main__":
    sys.exit(main())
