"""Memory object stream workload + monitors shared by C12 (exactly-once, ordered, bounded)
and C13 (closing semantics).

One actor per stream handle (an actor only ever closes its *own* handle, after its own
operations, so no operation is ever blocked on a handle that is being closed -- the
statements speak about peers).  Every item is unique ``[sender, n]``.  The harness records
``call`` before invoking and ``ret``/``exc`` after, keeps sends interrupted by cancellation
*open* (they may or may not have taken effect), and judges:

C12  duplicate / invented / lost items (exact accounting at quiescence by draining through
     a spare receive handle), per-(sender, receiver) order, FIFO service of queued
     receivers and of queued senders, buffer bound at every op boundary, and the contract
     layer at every synchronous exit.
C13  truthfulness of EndOfStream / BrokenResourceError / ClosedResourceError at the instant
     they are raised, open-clone counters, tasks left blocked although the peer side is
     fully closed (Deadlock justified by exactly that predicate).

Known finding F7 (native cancel of a receiver after an item was handed to it) is classified
by mechanism, see classify_loss().
"""

from __future__ import annotations

import asyncio
import math
import random

from . import contracts
from .collect import sig_of
from .loops import BusyLoop, Deadlock, run
from .sched import Actor, Harness, run_actors

F7_KEY = "memstream:native-cancel-after-handover"


def _cap(v):  # noqa: ANN001, ANN202
    return math.inf if v == "inf" else v


def execute(case: dict) -> dict:
    import anyio
    from anyio import (
        BrokenResourceError,
        ClosedResourceError,
        EndOfStream,
        WouldBlock,
        create_memory_object_stream,
    )
    from anyio.lowlevel import checkpoint

    contracts.install()
    contracts.drain()
    viol: list = []  # (property, clause, detail, mechanism)
    out: dict = {"viol": viol, "windows": {}, "nontrivial": False}
    box: dict = {}
    cap = _cap(case["cap"])

    def window(name: str) -> None:
        out["windows"][name] = out["windows"].get(name, 0) + 1

    def V(prop: str, clause: str, detail: dict, mech: str | None = None) -> None:  # noqa: N802
        viol.append((prop, clause, detail, mech))

    async def main() -> None:
        h = Harness()
        h.freeze_on_abort(viol)
        s0, r0 = create_memory_object_stream(cap)
        specs = case["actors"]
        handles: dict = {}
        open_s: set = set()
        open_r: set = set()
        spare_r = None
        for i, sp in enumerate(specs):
            if sp["role"] == "S":
                handles[i] = s0 if not open_s else s0.clone()
                open_s.add(i)
            else:
                handles[i] = r0 if not open_r else r0.clone()
                open_r.add(i)

        if not open_s:
            s0.close()

        if case.get("spare_r"):
            spare_r = r0.clone() if open_r else r0
            open_r.add("spare")
        elif not open_r:
            r0.close()

        spare_s = None
        if case.get("spare_s"):
            spare_s = s0.clone() if open_s else s0
            open_s.add("spare")

        accepted: dict = {}  # item -> accept seq (send returned normally)
        uncertain: dict = {}  # item -> seq (send interrupted by cancellation: stays open)
        delivered: dict = {}  # item -> (receiver, seq)
        per_recv: dict = {}
        sends_inprog: dict = {}  # actor -> (item, call seq)
        recvs_inprog: dict = {}  # actor -> call seq
        expect_recv: dict = {}  # receiver actor -> (item, accept seq) predicted hand-over
        handed: list = []  # (item, receiver actor, seq) predicted hand-overs
        must_break: set = set()  # items whose send_nowait ran with no receive clone open
        # at the instant the last receive clone closes, q sends are still queued: each of
        # them must end with BrokenResourceError, so of the sends in progress at that
        # instant at most (n - q) may still return normally
        quota: dict = {}

        def receive_side_now_closed() -> None:
            st = stats()
            items = {tuple(it) for it, _ in sends_inprog.values()}
            quota.update(items=items, max_ok=len(items) - st.tasks_waiting_send, ok=0)
        maybe_handed: list = []  # (item, candidate receivers, seq) for loss classification
        cancelled_recvs: list = []  # (actor, call seq, end seq)
        box.update(h=h, stats=s0.statistics)
        # the Runner's shutdown after a Deadlock cancels every task: judge the state as it
        # was at the instant the loop gave up
        h.abort_marks.append(
            lambda: box.update(open_s=set(open_s), open_r=set(open_r), snap_stats=stats(),
                               sends_inprog=dict(sends_inprog),
                               recvs_inprog=dict(recvs_inprog))  # fmt: skip
        )

        def stats():  # noqa: ANN202
            return s0.statistics()

        def audit(where: str) -> None:
            st = stats()
            if st.current_buffer_used > cap:
                V("C12", "buffer-over-bound", {"where": where, "stats": tuple(st)})

            if st.open_send_streams != len(open_s) or st.open_receive_streams != len(open_r):
                V("C13", "open-count-mismatch",
                  {"where": where, "stats": tuple(st), "true_send": len(open_s),
                   "true_receive": len(open_r)})  # fmt: skip

        def on_send_nowait(stream, item) -> None:  # noqa: ANN001
            """Observer: runs right before every real send_nowait (also the one inside a
            blocking send()).  If every in-progress receive is queued and the buffer is
            empty, the item must go to the first queued receiver that is not being
            cancelled."""
            st = stats()
            seq = h.ev(item[0], "send_nowait-enter", item)
            if item[0] in open_s and not open_r:
                must_break.add(tuple(item))

            if st.tasks_waiting_receive and not st.current_buffer_used:
                # the item is about to be handed to one of the queued receivers
                maybe_handed.append(
                    (tuple(item), [a for a in recvs_inprog if not a.cancel_issued], seq)
                )

            if not recvs_inprog or st.tasks_waiting_receive != len(recvs_inprog):
                return

            if st.current_buffer_used or item[0] not in open_s or not open_r:
                return

            order = sorted(recvs_inprog.items(), key=lambda kv: kv[1])
            for actor, _ in order:
                if actor.cancel_issued:
                    continue

                if actor not in expect_recv:
                    expect_recv[actor] = (item, seq)
                    handed.append((item, actor, seq))

                return

        first_queued: dict = {}

        def on_receive_nowait(stream) -> None:  # noqa: ANN001
            """Observer: right before every real receive_nowait.  If all in-progress sends
            are queued (none being cancelled) and the buffer is empty, the call must
            return the first queued sender's item."""
            st = stats()
            t = asyncio.current_task()
            first_queued.pop(t, None)
            me = next((a for a in h.actors if a.task is t), None)
            if me is None or me.name not in open_r:
                return

            if (
                sends_inprog
                and st.tasks_waiting_send == len(sends_inprog)
                and st.current_buffer_used == 0
                and not any(b.cancel_issued for b in sends_inprog)
            ):
                order = sorted(sends_inprog.items(), key=lambda kv: kv[1][1])
                first_queued[t] = order[0][1][0]

        contracts.OBS["send_nowait"] = [on_send_nowait]
        contracts.OBS["receive_nowait"] = [on_receive_nowait]

        def record_delivery(a: Actor, item) -> None:  # noqa: ANN001
            item = tuple(item)
            seq = h.seq
            if item in delivered:
                V("C12", "duplicate-delivery", {"item": item, "first": str(delivered[item][0]),
                                                "again": a.name})  # fmt: skip

            known = item in accepted or item in uncertain or any(
                it == item for it, _ in sends_inprog.values()
            )
            if not known:
                V("C12", "invented-item", {"item": item, "receiver": a.name})

            delivered.setdefault(item, (a.name, seq))
            per_recv.setdefault(a.name, []).append(item)

        # ------------------------------------------------------------------ sender ops
        async def do_send(a: Actor, item: tuple, nowait: bool) -> None:
            hd = handles[a.name]
            closed_self = a.name not in open_s
            seq = h.ev(a.name, "send-call", item, "nowait" if nowait else "")
            try:
                if nowait:
                    hd.send_nowait(item)
                else:
                    sends_inprog[a] = (item, seq)
                    try:
                        # the item may be handed over during this call
                        await hd.send(item)
                    finally:
                        sends_inprog.pop(a, None)
            except WouldBlock:
                h.ev(a.name, "send-wouldblock", item)
                st = stats()
                if st.current_buffer_used < cap and not closed_self:
                    V("C12", "wouldblock-with-room", {"stats": tuple(st)})
            except ClosedResourceError:
                h.ev(a.name, "send-closed", item)
                # (a handle closed by a third party between the call and its first
                # checkpoint may be reported closed: judged by the state at the raise)
                if not closed_self and a.name in open_s:
                    V("C13", "closed-error-on-open-handle", {"op": "send", "actor": a.name})
            except BrokenResourceError:
                h.ev(a.name, "send-broken", item)
                if open_r:
                    V("C13", "broken-while-receiver-open",
                      {"actor": a.name, "open_receive": len(open_r)})  # fmt: skip

                if closed_self:
                    V("C13", "closed-handle-not-reported", {"op": "send", "got": "Broken"})
            except asyncio.CancelledError:
                uncertain[item] = h.ev(a.name, "send-cancelled", item)
                if not a.cancel_issued:
                    V("C12", "cancelled-without-cancel", {"actor": a.name})

                raise
            except BaseException as e:  # noqa: BLE001
                V("C12", "exc!", {"op": "send", "exc": repr(e)})
            else:
                accepted[item] = h.ev(a.name, "send-ok", item)
                if closed_self:
                    V("C13", "closed-handle-not-reported", {"op": "send", "got": "ok"})
                elif tuple(item) in must_break:
                    V("C13", "send-accepted-with-no-receiver-open", {"item": item})
                elif quota and tuple(item) in quota["items"]:
                    quota["ok"] += 1
                    if quota["ok"] > quota["max_ok"]:
                        V("C13", "blocked-send-returned-ok-after-receive-side-closed",
                          {"item": item, "max_ok": quota["max_ok"]})  # fmt: skip

            audit("send")

        # ---------------------------------------------------------------- receiver ops
        async def do_recv(a: Actor, nowait: bool) -> None:
            hd = handles[a.name]
            closed_self = a.name not in open_r
            seq = h.ev(a.name, "recv-call", "nowait" if nowait else "")
            st0 = stats()
            me = asyncio.current_task()
            first_queued.pop(me, None)
            try:
                if nowait:
                    item = hd.receive_nowait()
                else:
                    recvs_inprog[a] = seq
                    try:
                        item = await hd.receive()
                    finally:
                        recvs_inprog.pop(a, None)
            except WouldBlock:
                h.ev(a.name, "recv-wouldblock")
                if (st0.current_buffer_used or st0.tasks_waiting_send) and not closed_self:
                    V("C12", "wouldblock-with-item-available", {"stats": tuple(st0)})
            except ClosedResourceError:
                h.ev(a.name, "recv-closed")
                if not closed_self and a.name in open_r:
                    V("C13", "closed-error-on-open-handle", {"op": "receive", "actor": a.name})
            except EndOfStream:
                h.ev(a.name, "recv-eos")
                st = stats()
                if open_s:
                    V("C13", "eos-while-sender-open", {"actor": a.name, "open_send": len(open_s)})

                if st.current_buffer_used or st.tasks_waiting_send:
                    V("C13", "eos-while-items-remain", {"stats": tuple(st)})

                if closed_self:
                    V("C13", "closed-handle-not-reported", {"op": "receive", "got": "EOS"})

                if a in expect_recv:
                    V("C12", "handed-item-vanished", {"expected": expect_recv.pop(a)[0]})
            except asyncio.CancelledError:
                endseq = h.ev(a.name, "recv-cancelled")
                cancelled_recvs.append((a, seq, endseq))
                if not a.cancel_issued:
                    V("C12", "cancelled-without-cancel", {"actor": a.name})

                raise
            except BaseException as e:  # noqa: BLE001
                V("C12", "exc!", {"op": "receive", "exc": repr(e)})
            else:
                h.ev(a.name, "recv-ok", item)
                if closed_self:
                    V("C13", "closed-handle-not-reported", {"op": "receive", "got": "item"})

                record_delivery(a, item)
                exp = expect_recv.pop(a, None)
                if exp is not None and tuple(exp[0]) != tuple(item):
                    V("C12", "receiver-fifo", {"receiver": a.name, "expected": exp[0],
                                               "got": item})  # fmt: skip

                fq = first_queued.pop(me, None)
                if fq is not None and tuple(fq) != tuple(item):
                    V("C12", "sender-fifo", {"expected_first_queued": fq, "got": item})

            audit("recv")

        async def body(a: Actor) -> None:
            sp = specs[a.name]
            n = 0
            nclones = 0
            extra: list = []
            for op in sp["ops"]:
                for _ in range(op[1]):
                    await checkpoint()

                kind = op[0]
                if kind == "send":
                    await do_send(a, (a.name, n), op[2])
                    n += 1
                elif kind == "recv":
                    await do_recv(a, op[2])
                elif kind == "recv_ctx":
                    # `async with stream: await stream.receive()` - the exit runs aclose(),
                    # possibly while this actor's cancellation is being delivered
                    try:
                        async with handles[a.name]:
                            await do_recv(a, False)
                    finally:
                        h.ev(a.name, "ctx-exit")
                        open_r.discard(a.name)
                        if not open_r:
                            receive_side_now_closed()

                        audit("async-with-exit")
                elif kind in ("close", "aclose"):
                    h.ev(a.name, kind)
                    (open_s if sp["role"] == "S" else open_r).discard(a.name)
                    if kind == "aclose":
                        # the asynchronous form (also what `async with stream:` runs); whether
                        # it returns or the caller's pending cancellation surfaces in it, the
                        # handle is closed afterwards
                        try:
                            await handles[a.name].aclose()
                        finally:
                            if sp["role"] == "R" and not open_r:
                                receive_side_now_closed()

                            audit("aclose")
                    else:
                        handles[a.name].close()

                    if sp["role"] == "R" and not open_r:
                        receive_side_now_closed()

                    audit("close")
                    if op[2]:  # closing twice is a no-op
                        handles[a.name].close()
                        audit("close-again")
                elif kind == "clone":
                    closed_self = a.name not in (open_s if sp["role"] == "S" else open_r)
                    try:
                        c = handles[a.name].clone()
                    except ClosedResourceError:
                        if not closed_self:
                            V("C13", "closed-error-on-open-handle", {"op": "clone"})
                    else:
                        if closed_self:
                            V("C13", "closed-handle-not-reported", {"op": "clone"})

                        nclones += 1
                        key = ("clone", a.name, nclones)
                        extra.append((key, c))
                        (open_s if sp["role"] == "S" else open_r).add(key)
                        h.ev(a.name, "clone")
                        audit("clone")
                elif kind == "close_clone":
                    if extra:
                        key, c = extra.pop(0)
                        (open_s if sp["role"] == "S" else open_r).discard(key)
                        h.ev(a.name, "close-clone")
                        c.close()
                        if sp["role"] == "R" and not open_r:
                            receive_side_now_closed()

                        audit("close-clone")

            for key, c in extra:
                (open_s if sp["role"] == "S" else open_r).discard(key)
                h.ev(a.name, "close-clone")
                c.close()
                if sp["role"] == "R" and not open_r:
                    receive_side_now_closed()

                audit("close-clone-end")

        actors = [Actor(h, i, sp["mode"]) for i, sp in enumerate(specs)]
        for ag in case["agents"]:
            if "close_spare" in ag:
                side = ag["close_spare"]

                def closer(side: str = side) -> None:
                    nonlocal spare_s, spare_r
                    if side == "S" and spare_s is not None:
                        st = stats()
                        if st.tasks_waiting_receive and len(open_s) == 1:
                            out["nontrivial"] = True
                            window("last_send_close_with_blocked_receivers")

                        open_s.discard("spare")
                        spare_s.close()
                        spare_s = None
                        audit("agent-close-S")
                    elif side == "R" and spare_r is not None:
                        st = stats()
                        if st.tasks_waiting_send and len(open_r) == 1:
                            out["nontrivial"] = True
                            window("last_receive_close_with_blocked_senders")

                        open_r.discard("spare")
                        spare_r.close()
                        spare_r = None
                        if not open_r:
                            receive_side_now_closed()

                        audit("agent-close-R")

                h.add_agent(ag["at"], ag["place"], closer, f"close-spare-{side}")
                continue

            if "close_actor" in ag:
                # a third party closes the handle an actor is using -- possibly while that
                # actor is blocked in send()/receive() on it (judged by the handle's state
                # at the instant each operation was INVOKED)
                tgt = actors[ag["close_actor"]]

                def close_other(tgt: Actor = tgt) -> None:
                    role = specs[tgt.name]["role"]
                    opened = open_s if role == "S" else open_r
                    if tgt.name not in opened:
                        return

                    if tgt in sends_inprog:
                        out["nontrivial"] = True
                        window("third_party_close_during_blocked_send")
                    elif tgt in recvs_inprog:
                        out["nontrivial"] = True
                        window("third_party_close_during_blocked_receive")

                    opened.discard(tgt.name)
                    handles[tgt.name].close()
                    if role == "R" and not open_r:
                        receive_side_now_closed()

                    audit("agent-close-actor-handle")

                h.add_agent(ag["at"], ag["place"], close_other, f"close-handle-of->{tgt.name}")
                continue

            victim = actors[ag["victim"]]

            def fire(victim: Actor = victim) -> None:
                if victim.done or victim.cancel_issued or victim.task is None:
                    return

                if victim in recvs_inprog:
                    out["nontrivial"] = True
                    window("cancel_blocked_receive:" + victim.mode)
                    if victim in expect_recv:
                        window("cancel_receive_after_handover:" + victim.mode)
                elif victim in sends_inprog:
                    out["nontrivial"] = True
                    window("cancel_blocked_send:" + victim.mode)

                victim.cancel()

            h.add_agent(ag["at"], ag["place"], fire, f"cancel->{ag['victim']}")

        await run_actors(h, [(a, body) for a in actors])
        for _ in range(3):
            await checkpoint()

        # ------------------------------------------------------------- quiescence
        audit("end")
        st = stats()
        if st.tasks_waiting_send or st.tasks_waiting_receive:
            V("C12", "waiters-left-at-quiescence", {"stats": tuple(st)})

        drained: list = []
        if spare_r is not None:
            while True:
                try:
                    drained.append(tuple(spare_r.receive_nowait()))
                except (WouldBlock, EndOfStream):
                    break

            have = set(delivered) | set(drained)
            lost = [it for it in accepted if it not in have]
            dups = [it for it in drained if it in delivered or drained.count(it) > 1]
            if dups:
                V("C12", "duplicate-delivery", {"items": dups, "where": "buffer"})

            inv = [it for it in drained if it not in accepted and it not in uncertain]
            if inv:
                V("C12", "invented-item", {"items": inv, "where": "buffer"})

            if lost:
                mech = classify_loss(lost, maybe_handed, cancelled_recvs)
                V("C12", "accepted-item-lost", {"lost": lost, "handed_candidates": [
                    (it, [r.name for r in rs], s) for it, rs, s in maybe_handed
                    if it in lost]}, mech)  # fmt: skip

            order_in = drained
        else:
            order_in = []

        # per (sender, receiver) order; the drained buffer counts as one more receiver
        for rname, items in list(per_recv.items()) + [("buffer", order_in)]:
            by: dict = {}
            for snd, k in items:
                by.setdefault(snd, []).append(k)

            for snd, ks in by.items():
                if ks != sorted(ks):
                    V("C12", "order-violated", {"receiver": str(rname), "sender": snd, "seq": ks})

        for hd in list(handles.values()) + [x for x in (spare_r, spare_s) if x is not None]:
            hd.close()

    info: dict = {"stuck_ticks": 600}
    try:
        run(main, config=case["cfg"], info=info)
    except Deadlock:
        h = box["h"]
        h.apply_freeze()
        st = box["snap_stats"]
        live_r = [a.name for a in box["recvs_inprog"] if not a.cancel_issued]
        live_s = [a.name for a in box["sends_inprog"] if not a.cancel_issued]
        justified = False
        if live_r and not box["open_s"]:
            V("C13", "deadlock:receiver-blocked-although-send-side-closed",
              {"receivers": live_r, "stats": tuple(st)})  # fmt: skip
            justified = True

        if live_s and not box["open_r"]:
            V("C13", "deadlock:sender-blocked-although-receive-side-closed",
              {"senders": live_s, "stats": tuple(st)})  # fmt: skip
            justified = True

        if live_r and (st.current_buffer_used or live_s):
            V("C12", "deadlock:receiver-blocked-with-item-available",
              {"receivers": live_r, "senders": live_s, "stats": tuple(st)})  # fmt: skip
            justified = True

        if live_s and st.current_buffer_used < st.max_buffer_size and not live_r:
            V("C12", "deadlock:sender-blocked-with-room", {"senders": live_s,
                                                           "stats": tuple(st)})  # fmt: skip
            justified = True

        if not justified:
            out["skipped_deadlock"] = True
    except BusyLoop:
        box["h"].apply_freeze()
        V("C12", "busy-loop", {})

    contracts.OBS.pop("send_nowait", None)
    contracts.OBS.pop("receive_nowait", None)
    for name, detail in contracts.drain():
        V("C13" if name == "memstream_close" else "C12", "contract:" + name, detail)

    if info.get("callback_errors"):
        V("C12", "exception-in-loop-callback", {"errors": info["callback_errors"][:3]})

    h = box.get("h")
    out["sig"] = sig_of([case["cfg"], case["cap"], h.signature() if h else None])
    out["log_tail"] = [list(map(str, e)) for e in (h.log[-40:] if h else [])]
    return out


def classify_loss(lost, maybe_handed, cancelled_recvs) -> str | None:  # noqa: ANN001
    """F7 iff every lost item was accepted by a send_nowait that found a queued receiver
    and an empty buffer (so it was handed over directly), and one of the receives that were
    queued at that instant ended with a cancellation that was issued NATIVELY after the
    accept.  Any other loss stays unclassified => VIOLATION."""
    for item in lost:
        ok = False
        for it, candidates, seq in maybe_handed:
            if it != tuple(item):
                continue

            for a, callseq, endseq in cancelled_recvs:
                if (
                    a in candidates
                    and a.mode != "scope"
                    and callseq < seq < endseq
                    and a.cancel_issued_seq is not None
                    and a.cancel_issued_seq > seq
                ):
                    ok = True

        if not ok:
            return None

    return F7_KEY


# ---------------------------------------------------------------------------------------
# generators
# ---------------------------------------------------------------------------------------
def gen_c12(rng: random.Random, cfgs: list[str]) -> dict:
    ns, nr = rng.randint(1, 3), rng.randint(1, 3)
    actors = []
    for role, n in (("S", ns), ("R", nr)):
        for _ in range(n):
            ops = []
            for _ in range(rng.randint(1, 5)):
                ops.append([("send" if role == "S" else "recv"), rng.randint(0, 3),
                            rng.random() < 0.3])  # fmt: skip

            if role == "S" and rng.random() < 0.5:
                ops.append(["close", rng.randint(0, 3), False])

            actors.append({"role": role, "mode": rng.choice(["scope", "native", "native-in-group"]), "ops": ops})

    agents = []
    for _ in range(rng.choice([0, 1, 2, 2, 3])):
        agents.append({"at": rng.randint(0, 12), "place": rng.choice(["before", "after"]),
                       "victim": rng.randrange(len(actors))})  # fmt: skip

    return {"cfg": rng.choice(cfgs), "cap": rng.choice([0, 0, 1, 2, "inf"]), "actors": actors,
            "agents": agents + [
                {"at": rng.randint(0, 12), "place": rng.choice(["before", "after"]),
                 "close_actor": rng.randrange(len(actors))}
                for _ in range(rng.choice([0, 0, 0, 1, 2]))
            ], "spare_r": True}  # fmt: skip


def sweep_c12(cfgs: list[str]):  # noqa: ANN201
    """Cancel sweep around the hand-over: blocked receiver(s) + a sender, and blocked
    sender(s) + a receiver, victim cancelled at every cycle, both placements, both kinds."""
    for cfg in cfgs:
        for cap in (0, 1, "inf"):
            for mode in ("scope", "native", "native-in-group"):
                for place in ("before", "after"):
                    for at in range(0, 9):
                        for send_nowait in (False, True):
                            for sd in (2, 3, 4):
                                # two blocked receivers, one sender sending two items
                                actors = [
                                    {"role": "R", "mode": mode, "ops": [["recv", 0, False]]},
                                    {"role": "R", "mode": mode,
                                     "ops": [["recv", 1, False], ["recv", 0, False]]},
                                    {"role": "S", "mode": "scope",
                                     "ops": [["send", sd, send_nowait], ["send", 1, send_nowait],
                                             ["send", 0, True]]},
                                ]  # fmt: skip
                                for victim in (0, 1):
                                    yield {"cfg": cfg, "cap": cap, "actors": actors,
                                           "agents": [{"at": at, "place": place,
                                                       "victim": victim}],
                                           "spare_r": True}  # fmt: skip

                        if cap != "inf":
                            for rd in (3, 4, 5):
                                # blocked senders (buffer full), one receiver draining
                                actors = [
                                    {"role": "S", "mode": mode,
                                     "ops": [["send", 0, False], ["send", 0, False]]},
                                    {"role": "S", "mode": mode,
                                     "ops": [["send", 1, False], ["send", 0, False]]},
                                    {"role": "R", "mode": "scope",
                                     "ops": [["recv", rd, True], ["recv", 1, False],
                                             ["recv", 0, True], ["recv", 2, False]]},
                                ]  # fmt: skip
                                for victim in (0, 1):
                                    yield {"cfg": cfg, "cap": cap, "actors": actors,
                                           "agents": [{"at": at, "place": place,
                                                       "victim": victim}],
                                           "spare_r": True}  # fmt: skip


def sweep_c12_third_party_close(cfgs: list[str]):  # noqa: ANN201
    """the handle a receiver is blocked on is closed by somebody else (a spare clone keeps
    the receive side open) around the instant an item is handed to it: the item must reach
    a receive call or stay in the stream - and mirror image for a blocked sender"""
    for cfg in cfgs:
        for cap in (0, 1, "inf"):
            for k in (1, 2):
                for at in range(1, 7):
                    for d in range(max(1, at - 2), at + 3):
                        for place in ("before", "after"):
                            for nowait in (False, True):
                                actors = [
                                    {"role": "R", "mode": "scope", "ops": [["recv", i, False]]}
                                    for i in range(k)
                                ] + [
                                    {"role": "S", "mode": "scope",
                                     "ops": [["send", d, nowait], ["send", 1, nowait]]},
                                ]  # fmt: skip
                                yield {"cfg": cfg, "cap": cap, "actors": actors,
                                       "agents": [{"at": at, "place": place, "close_actor": 0}],
                                       "spare_r": True, "spare_s": False}  # fmt: skip

            if cap == "inf":
                continue

            for at in range(1, 6):
                for rd in range(max(1, at - 1), at + 3):
                    for place in ("before", "after"):
                        actors = [
                            {"role": "S", "mode": "scope",
                             "ops": [["send", 0, False], ["send", 0, False]]},
                            {"role": "S", "mode": "scope", "ops": [["send", 1, False]]},
                            {"role": "R", "mode": "scope",
                             "ops": [["recv", rd, False], ["recv", 1, False], ["recv", 0, True]]},
                        ]  # fmt: skip
                        yield {"cfg": cfg, "cap": cap, "actors": actors,
                               "agents": [{"at": at, "place": place, "close_actor": 0}],
                               "spare_r": True, "spare_s": True}  # fmt: skip

            # every send handle is closed under the blocked sender(s) by somebody else: what
            # they hold is still pending and has to reach the next receive, not EndOfStream
            for nsend in (1, 2):
                for at in range(1, 5):
                    for rd in range(at, at + 4):
                        for place in ("before", "after"):
                            for nowait_r in (False, True):
                                actors = [{"role": "S", "mode": "scope", "ops": [["send", 0, False]]}
                                          for _ in range(nsend)]  # fmt: skip
                                actors.append({"role": "R", "mode": "scope",
                                               "ops": [["recv", rd, nowait_r], ["recv", 0, nowait_r],
                                                       ["recv", 0, True]]})  # fmt: skip
                                yield {"cfg": cfg, "cap": cap, "actors": actors,
                                       "agents": [{"at": at + i, "place": place, "close_actor": i}
                                                  for i in range(nsend)],
                                       "spare_r": False, "spare_s": False}  # fmt: skip


def gen_c13(rng: random.Random, cfgs: list[str]) -> dict:
    ns, nr = rng.randint(1, 3), rng.randint(1, 3)
    actors = []
    for role, n in (("S", ns), ("R", nr)):
        for _ in range(n):
            ops = []
            closed = False
            for _ in range(rng.randint(1, 5)):
                r = rng.random()
                if r < 0.55 or closed:
                    ops.append([("send" if role == "S" else "recv"), rng.randint(0, 3),
                                rng.random() < 0.3])  # fmt: skip
                elif r < 0.7:
                    ops.append(["clone", rng.randint(0, 2)])
                elif r < 0.8:
                    ops.append(["close_clone", rng.randint(0, 2)])
                else:
                    ops.append([rng.choice(["close", "close", "aclose"]), rng.randint(0, 3),
                                rng.random() < 0.3])  # fmt: skip
                    closed = True

            if not closed and rng.random() < 0.8:
                ops.append([rng.choice(["close", "aclose"]), rng.randint(0, 4), rng.random() < 0.2])
                if rng.random() < 0.3:
                    ops.append([("send" if role == "S" else "recv"), 0, rng.random() < 0.5])
                    if rng.random() < 0.3:
                        ops.append(["clone", 0])

            actors.append({"role": role, "mode": rng.choice(["scope", "scope", "native", "native-in-group"]),
                           "ops": ops})  # fmt: skip

    agents = []
    spare_s = rng.random() < 0.4
    spare_r = rng.random() < 0.4
    if spare_s:
        agents.append({"at": rng.randint(2, 14), "place": rng.choice(["before", "after"]),
                       "close_spare": "S"})  # fmt: skip

    if spare_r:
        agents.append({"at": rng.randint(2, 14), "place": rng.choice(["before", "after"]),
                       "close_spare": "R"})  # fmt: skip

    for _ in range(rng.choice([0, 0, 1, 2])):
        agents.append({"at": rng.randint(0, 12), "place": rng.choice(["before", "after"]),
                       "victim": rng.randrange(len(actors))})  # fmt: skip

    for _ in range(rng.choice([0, 0, 0, 1, 2, 3])):
        agents.append({"at": rng.randint(0, 12), "place": rng.choice(["before", "after"]),
                       "close_actor": rng.randrange(len(actors))})  # fmt: skip

    return {"cfg": rng.choice(cfgs), "cap": rng.choice([0, 0, 1, 2, "inf"]), "actors": actors,
            "agents": agents, "spare_r": spare_r, "spare_s": spare_s}  # fmt: skip


def sweep_c13(cfgs: list[str]):  # noqa: ANN201
    """The last clone of one side is closed (by an agent) at every cycle while k peers are
    blocked on the other side; earlier closes of non-last clones must wake nobody."""
    # k receivers blocked, the one at the head is cancelled at cycle `at`, the only sender
    # sends at cycle d (all alignments, in particular the same cycle) and closes at once:
    # the remaining receivers must get the item before anybody sees EndOfStream
    for cfg in cfgs:
        for cap in (1, 2):
            for k in (2, 3):
                for at in range(1, 7):
                    for d in range(max(1, at - 2), at + 3):
                        for place in ("before", "after"):
                            for mode in ("scope", "native-in-group"):
                                actors = [
                                    {"role": "R", "mode": mode if i == 0 else "scope",
                                     "ops": [["recv", i, False]]}
                                    for i in range(k)
                                ] + [
                                    {"role": "S", "mode": "scope",
                                     "ops": [["send", d, True], ["close", 0, False]]},
                                ]  # fmt: skip
                                yield {"cfg": cfg, "cap": cap, "actors": actors,
                                       "agents": [{"at": at, "place": place, "victim": 0}],
                                       "spare_s": False, "spare_r": False}  # fmt: skip

    # the only receiver sits in `async with stream: await stream.receive()` and is cancelled;
    # its handle must be closed by the exit although the cancellation is still pending, so a
    # sender arriving later (or already blocked) learns that nobody will ever receive
    for cfg in cfgs:
        for cap in (0, 1):
            for at in range(1, 6):
                for place in ("before", "after"):
                    for mode in ("scope", "native-in-group"):
                        for late in (2, 4):
                            actors = [
                                {"role": "R", "mode": mode, "ops": [["recv_ctx", 0, False]]},
                                {"role": "S", "mode": "scope",
                                 "ops": [["send", at + late, False], ["send", 0, False],
                                         ["send", 0, False]]},
                            ]  # fmt: skip
                            yield {"cfg": cfg, "cap": cap, "actors": actors,
                                   "agents": [{"at": at, "place": place, "victim": 0}],
                                   "spare_s": False, "spare_r": False}  # fmt: skip

    for cfg in cfgs:
        for cap in (0, 1):
            for place in ("before", "after"):
                for at in range(1, 10):
                    for k in (1, 2, 3):
                        # k blocked receivers, one sender clone closing early, spare closes last
                        actors = [
                            {"role": "R", "mode": "scope", "ops": [["recv", i, False],
                                                                   ["recv", 0, False]]}
                            for i in range(k)
                        ] + [
                            {"role": "S", "mode": "scope",
                             "ops": [["send", 1, False], ["close", 1, False]]},
                        ]  # fmt: skip
                        yield {"cfg": cfg, "cap": cap, "actors": actors,
                               "agents": [{"at": at, "place": place, "close_spare": "S"}],
                               "spare_s": True, "spare_r": False}  # fmt: skip
                        # k blocked senders, one receiver clone closing early
                        actors = [
                            {"role": "S", "mode": "scope",
                             "ops": [["send", i, False], ["send", 0, False],
                                     ["send", 0, False]]}
                            for i in range(k)
                        ] + [
                            {"role": "R", "mode": "scope",
                             "ops": [["recv", 2, True], ["close", 1, False]]},
                        ]  # fmt: skip
                        yield {"cfg": cfg, "cap": cap, "actors": actors,
                               "agents": [{"at": at, "place": place, "close_spare": "R"}],
                               "spare_s": False, "spare_r": True}  # fmt: skip
                        if at > 6:
                            continue

                        # k senders blocked on their own handles; a third party closes every
                        # send handle under them; only then does the receiver start: it must
                        # get the pending items in order, then EndOfStream; senders return
                        for gap in (0, 1, 3):
                            actors = [
                                {"role": "S", "mode": "scope", "ops": [["send", i, False]]}
                                for i in range(k)
                            ] + [
                                {"role": "R", "mode": "scope",
                                 "ops": [["recv", at + gap + 2, gap == 1]]
                                 + [["recv", 0, False]] * k},
                            ]  # fmt: skip
                            yield {"cfg": cfg, "cap": cap, "actors": actors,
                                   "agents": [{"at": at + (i if gap else 0), "place": place,
                                               "close_actor": i} for i in range(k)],
                                   "spare_s": False, "spare_r": False}  # fmt: skip
                            # mirror image: blocked receivers whose handles are closed under them
                            actors = [
                                {"role": "R", "mode": "scope", "ops": [["recv", i, False]]}
                                for i in range(k)
                            ] + [
                                {"role": "S", "mode": "scope",
                                 "ops": [["send", at + gap + 2, gap == 1], ["close", 1, False]]},
                            ]  # fmt: skip
                            yield {"cfg": cfg, "cap": cap, "actors": actors,
                                   "agents": [{"at": at + (i if gap else 0), "place": place,
                                               "close_actor": i} for i in range(k)],
                                   "spare_s": False, "spare_r": False}  # fmt: skip


# ---------------------------------------------------------------------------------------
# payload classes: items that are None / falsy travel like any other item
# ---------------------------------------------------------------------------------------
PAYLOADS = [None, 0, "", False, (), None, 0.0, b"", "x", None]


def payload_cases():  # noqa: ANN201
    """one sender, one receiver (total order, so the oracle is simply 'received == sent, then
    EndOfStream'), every path an item can take: buffered, handed to a blocked receiver, taken
    from a blocked sender; blocking / nowait / async-for consumption"""
    for cfg in ("stock", "eager"):
        for cap in (0, 1, 2, "inf"):
            for n in (1, 3, len(PAYLOADS)):
                for reader_first in (False, True):
                    for send_kind in ("send", "send_nowait"):
                        for recv_kind in ("receive", "async-for", "receive_nowait"):
                            if cap == 0 and send_kind == "send_nowait" and not reader_first:
                                continue  # WouldBlock by construction

                            if recv_kind == "receive_nowait" and (reader_first or cap == 0):
                                continue

                            yield {"t": "payload", "cfg": cfg, "cap": cap, "n": n,
                                   "reader_first": reader_first, "send_kind": send_kind,
                                   "recv_kind": recv_kind}  # fmt: skip


def execute_payload(case: dict) -> dict:
    import math

    import anyio
    from anyio import EndOfStream, WouldBlock, create_memory_object_stream
    from anyio.lowlevel import checkpoint

    viol: list = []
    out: dict = {"viol": viol, "windows": {"payload_case": 1}, "nontrivial": True}
    items = PAYLOADS[: case["n"]]
    got: list = []
    end: dict = {}

    async def main() -> None:
        cap = math.inf if case["cap"] == "inf" else case["cap"]
        send, recv = create_memory_object_stream(cap)

        async def sender() -> None:
            if case["reader_first"]:
                for _ in range(3):
                    await checkpoint()

            try:
                for it in items:
                    if case["send_kind"] == "send":
                        await send.send(it)
                    else:
                        while True:
                            try:
                                send.send_nowait(it)
                                break
                            except WouldBlock:
                                await checkpoint()
            except BaseException as e:  # noqa: BLE001
                end["send_exc"] = repr(e)
            finally:
                send.close()

        async def receiver() -> None:
            if not case["reader_first"]:
                for _ in range(3):
                    await checkpoint()

            try:
                if case["recv_kind"] == "async-for":
                    async for it in recv:
                        got.append(it)

                    end["recv"] = "EndOfStream"
                elif case["recv_kind"] == "receive":
                    while True:
                        got.append(await recv.receive())
                else:
                    while True:
                        try:
                            got.append(recv.receive_nowait())
                        except WouldBlock:
                            await checkpoint()
            except EndOfStream:
                end["recv"] = "EndOfStream"
            except BaseException as e:  # noqa: BLE001
                end["recv"] = repr(e)

        with anyio.fail_after(50):
            async with anyio.create_task_group() as tg:
                tg.start_soon(sender)
                tg.start_soon(receiver)

        recv.close()

    try:
        run(main, config=case["cfg"])
    except Deadlock:
        viol.append(("C12", "payload:deadlock", {"got": repr(got)}, None))
    except BaseException as e:  # noqa: BLE001
        viol.append(("C12", "payload:exception-escaped", {"exc": repr(e)}, None))

    same = len(got) == len(items) and all(a is b or (a == b and type(a) is type(b))
                                          for a, b in zip(got, items))  # fmt: skip
    if not same or end.get("send_exc"):
        viol.append(("C12", "payload:received-differs-from-sent",
                     {"sent": repr(items), "received": repr(got), "end": end}, None))  # fmt: skip
        if end.get("recv") == "EndOfStream" and len(got) < len(items):
            viol.append(("C13", "payload:EndOfStream-while-items-were-still-to-come",
                         {"sent": repr(items), "received": repr(got)}, None))  # fmt: skip
    elif end.get("recv") != "EndOfStream":
        viol.append(("C13", "payload:stream-did-not-end-with-EndOfStream", {"end": end}, None))

    out["sig"] = sig_of(["payload", case, repr(got), end])
    out["log_tail"] = [[repr(items)], [repr(got)], [repr(end)]]
    return out
