"""C07 -- TaskGroup.start(): readiness handshake is exact and loses nothing.

Case analysis over the log order of started(), child end, caller cancellation, start()
return/raise and group exit (vf/tree.py start_child / judge_start_raised / do_started) plus
C02's leaf accounting for errors raised by the child while it unwinds.
"""

from __future__ import annotations

from ..collect import guarded

import itertools

from .. import treecheck, treefam

PROPERTY = "C07"
LEVEL = "exploration"
RULE = (
    "case = generated task-tree / cancel-scope program (see vf/treegen.py profile c07: "
    "checkpoints, sleeps, sleep_forever, event waits, nested scopes with shields and "
    "deadlines, task groups, spawn, cancel of any scope/group/handle, shield toggles, raise, "
    "shielded cleanup, catch-cancel-then-continue, handle waits, start() children) + agents "
    "(cancel/shield/deadline/set at a cycle or virtual instant, before|after the tasks' "
    "wake-ups) on {stock, eager}. Non-trivial = a start() handshake completed, or the caller of start() became cancelled while waiting; distinct = distinct trace signature."
)
ASSUMPTIONS = [
    "asyncio FIFO ready queue (never reordered); VLoop virtual time",
    "generated code never swallows a cancellation (it re-raises, or raises from cleanup)",
    "independent shadow scope model kept in lock-step by the interpreter (vf/shadow.py); "
    "same-instant / in-flight ties accept both coherent outcomes and are counted",
]
SHARD_TIMEOUT = {"quick": 300, "thorough": 1500}


def all_cases(tier: str, seed: int):  # noqa: ANN201
    yield from treecheck.cases("c07", tier, seed, 4000, 60000, extra=lambda: itertools.chain(treefam.start_sweep(), treefam.start_into_cancelled()))


def shards(tier: str, seed: int) -> list[dict]:
    return treecheck.shards(tier, seed)


def judge(case: dict, col) -> None:  # noqa: ANN001
    # "after started() the child is an ordinary member of the group": in the family whose
    # only tasks besides the callers are start() children, a child that is not interrupted
    # in the cancelled group (a C03 clause) is a C07 violation as well
    also = ("C03",) if case.get("profile") == "fam:start_into_cancelled" else ()
    treecheck.judge(PROPERTY, case, col, also=also)


def run_shard(desc: dict, col) -> None:  # noqa: ANN001
    for i, case in enumerate(all_cases(desc["tier"], desc["seed"])):
        if i % desc["of"] == desc["shard"]:
            guarded(col, case, judge, case, col)


def replay(case: dict, col) -> None:  # noqa: ANN001
    guarded(col, case, judge, case, col)


def finish(col, tier: str) -> None:  # noqa: ANN001
    for k in ['nontrivial:start-handshake', 'window:start_caller_cancelled_while_waiting', 'window:second_started_refused']:
        if not col.counters.get(k):
            col.inconclusive_because(f"deciding window never reached: {k}")
