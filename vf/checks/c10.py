"""C10 -- Semaphore and CapacityLimiter: permits are conserved and never over-granted.

Generated histories of acquire / acquire_nowait / acquire_on_behalf_of(_nowait) / release /
extra releases / total_tokens assignments run against the real primitives on the
virtual-time loop.  Oracles: (1) an online holder-count monitor kept by the harness at the
API boundary, compared with value / borrowed_tokens / available_tokens / statistics() at
every op boundary; (2) icontract invariants evaluated at the exit of every synchronous
critical section (release, *_nowait, total_tokens setter); (3) first-come-first-served over
the recorded history; (4) Deadlock of the virtual loop with a free permit and a live waiter;
(5) back to the initial state at quiescence.  Waiters are cancelled by AnyIO scopes and
natively at every cycle around each release / assignment.
"""

from __future__ import annotations

import asyncio
import math
import random

from .. import contracts
from ..collect import guarded, sig_of
from ..loops import BusyLoop, Deadlock, run
from ..sched import Actor, Harness, run_actors

PROPERTY = "C10"
LEVEL = "exploration"
RULE = (
    "case = (loop config, primitive: Semaphore(initial 0..4, max_value, fast_acquire) | "
    "CapacityLimiter(total 0..4|inf), 2-5 actor programs of with(acquire|nowait|ctx|"
    "on_behalf_of)/hold/release, extra releases, misuse ops, total_tokens assignments "
    "(raise, lower below borrowed, 0, inf) by actors and agents, cancel agents (victim, "
    "cycle, placement, scope|native)); exhaustive cancel-cycle sweep over base programs + "
    "the F1 family (lower-then-raise sweep) + seeded random histories. Non-trivial = a "
    "cancellation was issued to an actor inside acquire, or total_tokens was assigned "
    "while a waiter was queued; distinct = distinct trace signature."
)
ASSUMPTIONS = [
    "asyncio FIFO ready queue (never reordered)",
    "two concurrent waits on behalf of the same borrower object are not generated "
    "(outside the statement)",
    "native Task.cancel() of a waiter is supported usage",
]
SHARD_TIMEOUT = {"quick": 300, "thorough": 1500}
NSHARDS = 16
INF = "inf"


def _tot(v):  # noqa: ANN001, ANN202
    return math.inf if v == INF else v


def gen_random(rng: random.Random, cfgs: list[str]) -> dict:
    prim = rng.choice(["sem", "lim", "lim"])
    n = rng.randint(2, 5)
    if prim == "sem":
        init = rng.choice([0, 1, 1, 2, 2, 3, 4])
        maxv = rng.choice([None, None, init, init + 1])
        res = {"prim": "sem", "init": init, "max": maxv, "fast": rng.random() < 0.4,
               "outside": rng.random() < 0.3}  # fmt: skip
        kinds = ["acquire", "acquire", "ctx", "nowait"]
    else:
        init = rng.choice([0, 1, 1, 2, 2, 3, INF])
        res = {"prim": "lim", "init": init, "outside": rng.random() < 0.3}
        kinds = ["acquire", "acquire", "ctx", "nowait", "behalf", "behalf_nowait"]

    actors = []
    for _ in range(n):
        ops = []
        for _ in range(rng.randint(1, 3)):
            r = rng.random()
            if r < 0.65:
                ops.append(["with", rng.randint(0, 3), rng.randint(0, 3), rng.choice(kinds),
                            rng.random() < 0.15])  # fmt: skip
            elif r < 0.75:
                ops.append(["bad_release", rng.randint(0, 3)])
            elif r < 0.85 and prim == "lim":
                ops.append(["set_total", rng.randint(0, 4), rng.choice([0, 1, 2, 3, 4, INF])])
            else:
                ops.append(["cp", rng.randint(1, 3)])

        actors.append({"mode": rng.choice(["scope", "native", "native-in-group"]), "ops": ops})

    agents = []
    for _ in range(rng.choice([0, 1, 1, 2, 3])):
        if prim == "lim" and rng.random() < 0.4:
            agents.append({"at": rng.randint(0, 14), "place": rng.choice(["before", "after"]),
                           "set_total": rng.choice([0, 1, 2, 3, 5, INF])})  # fmt: skip
        else:
            agents.append({"at": rng.randint(0, 14), "place": rng.choice(["before", "after"]),
                           "victim": rng.randrange(n)})  # fmt: skip

    if prim == "lim" and rng.random() < 0.8:
        agents.append({"at": 30, "place": "after", "set_total": rng.choice([1, 2, INF])})

    return {"cfg": rng.choice(cfgs), "res": res, "actors": actors, "agents": agents}


def sweep_cases(cfgs: list[str]):  # noqa: ANN201
    # cancel sweep over 3-actor base programs with one permit
    for cfg in cfgs:
        for res in (
            {"prim": "sem", "init": 1, "max": None, "fast": False},
            {"prim": "sem", "init": 1, "max": 1, "fast": True},
            {"prim": "lim", "init": 1},
            {"prim": "sem", "init": 1, "max": 1, "fast": False, "outside": True},
            {"prim": "lim", "init": 1, "outside": True},
        ):
            for hold in (0, 1, 2):
                for mode in ("scope", "native", "native-in-group"):
                    for victim in (1, 2):
                        for place in ("before", "after"):
                            for at in range(0, 12):
                                actors = [
                                    {"mode": "scope", "ops": [["with", 0, hold, "acquire", False]]},
                                    {"mode": mode, "ops": [["with", 0, 1, "acquire", False]]},
                                    {"mode": mode, "ops": [["with", 1, 1, "acquire", False]]},
                                ]
                                yield {"cfg": cfg, "res": res, "actors": actors,
                                       "agents": [{"at": at, "place": place, "victim": victim}]}  # fmt: skip

    # the total_tokens family: lower (below borrowed) then raise, with waiters queued
    for cfg in cfgs:
        for init in (1, 2, 3):
            for low in (0, 1):
                for high in (1, 2, 3, INF):
                    for t_low in (1, 3, 5):
                        for t_high in (6, 8, 10):
                            for place in ("before", "after"):
                                actors = [
                                    {"mode": "scope", "ops": [["with", 0, 9, "acquire", False]]}
                                    for _ in range(init)
                                ] + [
                                    {"mode": "scope", "ops": [["with", 2, 1, "acquire", False]]},
                                    {"mode": "native", "ops": [["with", 3, 1, "behalf", False]]},
                                ]
                                yield {
                                    "cfg": cfg, "res": {"prim": "lim", "init": init},
                                    "actors": actors,
                                    "agents": [
                                        {"at": t_low, "place": place, "set_total": low},
                                        {"at": t_high, "place": place, "set_total": high},
                                        {"at": 30, "place": "after", "set_total": INF},
                                    ],
                                }  # fmt: skip


def execute(case: dict) -> dict:
    import anyio
    from anyio import WouldBlock
    from anyio.lowlevel import checkpoint

    contracts.install()
    contracts.drain()
    viol: list = []
    out: dict = {"viol": viol, "windows": {}, "nontrivial": False}
    box: dict = {}
    rs = case["res"]
    is_sem = rs["prim"] == "sem"

    def window(name: str) -> None:
        out["windows"][name] = out["windows"].get(name, 0) + 1

    def make():  # noqa: ANN202
        if is_sem:
            return anyio.Semaphore(rs["init"], max_value=rs["max"], fast_acquire=rs["fast"])

        return anyio.CapacityLimiter(_tot(rs["init"]))

    # created while no event loop runs (module-level primitives): AnyIO hands out an adapter
    # that builds the backend object on first use - it has to behave exactly the same
    pre = make() if rs.get("outside") else None
    if pre is not None:
        window("primitive_created_outside_the_loop:" + type(pre).__name__)

    async def main() -> None:
        h = Harness()
        h.freeze_on_abort(viol)
        res = pre if pre is not None else make()

        # monitor state -- updated only at the API boundary
        st = {"permits": rs["init"] if is_sem else None, "held": 0}
        holders: dict = {}  # actor -> borrower key
        inprog: dict = {}  # actor -> start seq
        oblig: list = []  # (earlier actor, later actor, deadline cycle)
        box.update(h=h, res=res, st=st)
        h.abort_marks.append(
            lambda: box.update(holders=dict(holders), inprog=dict(inprog), free=free(),
                               total=(st["permits"] if is_sem else res.total_tokens))  # fmt: skip
        )

        def nwaiting() -> int:
            return res.statistics().tasks_waiting

        def free() -> float:
            return res.value if is_sem else res.available_tokens

        def audit(where: str) -> None:
            """reported counters vs the monitor's own counts, at an op boundary"""
            held = len(holders)
            k = len(inprog)
            if is_sem:
                v = res.value
                lo, hi = st["permits"] - held - k, st["permits"] - held
                if not lo <= v <= hi or v < 0:
                    viol.append(("count-drift", {"where": where, "value": v, "permits":
                                                 st["permits"], "held": held, "inflight<=": k}))  # fmt: skip

                if held > st["permits"]:
                    viol.append(("over-grant", {"where": where, "held": held,
                                                "permits": st["permits"]}))  # fmt: skip
            else:
                b = res.borrowed_tokens
                if not held <= b <= held + k:
                    viol.append(("count-drift", {"where": where, "borrowed": b, "held": held,
                                                 "inflight<=": k}))  # fmt: skip

                if res.available_tokens != res.total_tokens - b:
                    viol.append(("available-mismatch", {"where": where}))

            # obligations: an earlier, never-cancelled waiter that was already served
            # when a later one returned must itself return within 2 cycles
            now = h.cyc()
            for ob in list(oblig):
                early, late, deadline = ob
                if early not in inprog or early.cancel_issued:
                    oblig.remove(ob)
                elif now > deadline:
                    oblig.remove(ob)
                    viol.append(("fifo-overtaken", {"waiter": early.name, "by": late.name}))

        async def do_acquire(a: Actor, kind: str) -> object:
            key: object = asyncio.current_task()
            if kind in ("behalf", "behalf_nowait"):
                key = f"borrower-{a.name}-{h.seq}"

            if kind in ("nowait", "behalf_nowait"):
                live = [b for b in inprog if not b.cancel_issued]
                f0, w0 = free(), nwaiting()
                h.ev(a.name, "nowait-call")
                try:
                    if kind == "nowait":
                        res.acquire_nowait()
                    else:
                        res.acquire_on_behalf_of_nowait(key)
                except WouldBlock:
                    h.ev(a.name, "nowait-wouldblock")
                    if f0 > 0 and w0 == 0:
                        viol.append(("nowait-wouldblock-with-free-permit", {"free": f0}))

                    return None
                except BaseException as e:  # noqa: BLE001
                    viol.append(("exc!", {"op": kind, "exc": repr(e)}))
                    return None

                h.ev(a.name, "nowait-ok")
                if f0 <= 0:
                    viol.append(("grant-without-free-permit", {"op": kind, "free_before": f0}))

                if live and w0 > 0:
                    viol.append(("newcomer-overtook-waiter",
                                 {"actor": a.name, "waiters": [b.name for b in live]}))  # fmt: skip
            else:
                seq = h.ev(a.name, "acq-call")
                inprog[a] = seq
                try:
                    if kind == "ctx":
                        await res.__aenter__()
                    elif kind == "behalf":
                        await res.acquire_on_behalf_of(key)
                    else:
                        await res.acquire()
                except asyncio.CancelledError:
                    del inprog[a]
                    h.ev(a.name, "acq-cancelled")
                    if not a.cancel_issued:
                        viol.append(("cancelled-without-cancel", {"actor": a.name}))

                    if not is_sem and key in res.statistics().borrowers:
                        viol.append(("cancelled-acquirer-holds-token", {"actor": a.name}))

                    audit("acq-cancelled")
                    raise
                except BaseException as e:  # noqa: BLE001
                    del inprog[a]
                    viol.append(("exc!", {"op": kind, "exc": repr(e)}))
                    return None

                del inprog[a]
                h.ev(a.name, "acq-ret")
                if nwaiting() > 0:
                    for b, s in inprog.items():
                        if s < seq and not b.cancel_issued:
                            oblig.append((b, a, h.cyc() + 2))

            if not is_sem and key not in res.statistics().borrowers:
                viol.append(("acquired-but-not-borrower", {"actor": a.name}))

            holders[a] = key
            audit("acquired")
            return key

        def do_release(a: Actor) -> None:
            key = holders.pop(a)
            h.ev(a.name, "release")
            # (semaphore) extra releases may have used up the head-room below max_value:
            # then this holder's release is itself "beyond max_value" and must be refused
            expect_err = is_sem and rs["max"] is not None and res.value == rs["max"]
            try:
                if isinstance(key, str):
                    res.release_on_behalf_of(key)
                else:
                    res.release()
            except ValueError as e:
                if expect_err:
                    h.ev(a.name, "release-refused-at-max")
                    st["permits"] -= 1  # the permit is discarded
                else:
                    viol.append(("exc!", {"op": "release", "exc": repr(e)}))
            except BaseException as e:  # noqa: BLE001
                viol.append(("exc!", {"op": "release", "exc": repr(e)}))
            else:
                if expect_err:
                    viol.append(("release-beyond-max_value-accepted", {"value": res.value}))

            audit("released")

        def set_total(value, who) -> None:  # noqa: ANN001
            if nwaiting() > 0:
                out["nontrivial"] = True
                window("set_total_with_waiters")
                if _tot(value) > res.total_tokens:
                    window("raise_total_with_waiters")
                    if res.borrowed_tokens > res.total_tokens:
                        window("raise_after_lowered_below_borrowed")

            h.ev(who, "set-total", value)
            try:
                res.total_tokens = _tot(value)
            except BaseException as e:  # noqa: BLE001
                viol.append(("exc!", {"op": "set_total", "exc": repr(e)}))

            audit("set_total")

        async def body(a: Actor) -> None:
            spec = case["actors"][a.name]
            for op in spec["ops"]:
                if op[0] == "cp":
                    for _ in range(op[1]):
                        await checkpoint()
                elif op[0] == "set_total":
                    for _ in range(op[1]):
                        await checkpoint()

                    set_total(op[2], a.name)
                elif op[0] == "bad_release":
                    for _ in range(op[1]):
                        await checkpoint()

                    if is_sem and rs["max"] is not None and (holders or inprog):
                        # with a max_value, an extra release while permits are out would
                        # put more permits into circulation than max_value allows (user
                        # error the semaphore cannot detect at that time); only judged
                        # when nobody holds or waits
                        h.ev(a.name, "extra-release-skipped")
                    elif is_sem:
                        # an extra release is legal unless value == max_value
                        v0 = res.value
                        expect_err = rs["max"] is not None and v0 == rs["max"]
                        try:
                            res.release()
                        except ValueError:
                            h.ev(a.name, "extra-release-refused")
                            if not expect_err:
                                viol.append(("release-refused-below-max", {"value": v0}))
                        except BaseException as e:  # noqa: BLE001
                            viol.append(("exc!", {"op": "extra_release", "exc": repr(e)}))
                        else:
                            h.ev(a.name, "extra-release")
                            st["permits"] += 1
                            if expect_err:
                                viol.append(("release-beyond-max_value-accepted", {"value": v0}))

                        audit("extra-release")
                    else:
                        b0 = res.borrowed_tokens
                        try:
                            if random.Random(h.seq).random() < 0.5:
                                res.release()
                            else:
                                res.release_on_behalf_of("nobody")
                        except RuntimeError:
                            h.ev(a.name, "bad-release-refused")
                        except BaseException as e:  # noqa: BLE001
                            viol.append(("exc!", {"op": "bad_release", "exc": repr(e)}))
                        else:
                            viol.append(("release-by-non-borrower-accepted", {}))

                        if res.borrowed_tokens != b0:
                            viol.append(("refused-release-changed-state", {}))
                elif op[0] == "with":
                    _, pre, hold, kind, double = op
                    for _ in range(pre):
                        await checkpoint()

                    key = await do_acquire(a, kind)
                    if key is None:
                        continue

                    try:
                        if double and not is_sem:
                            # a borrower cannot hold two tokens
                            try:
                                if isinstance(key, str):
                                    res.acquire_on_behalf_of_nowait(key)
                                else:
                                    await res.acquire()
                            except RuntimeError:
                                h.ev(a.name, "double-acquire-refused")
                            except asyncio.CancelledError:
                                raise
                            except BaseException as e:  # noqa: BLE001
                                viol.append(("exc!", {"op": "double", "exc": repr(e)}))
                            else:
                                viol.append(("borrower-holds-two-tokens", {"actor": a.name}))

                        for _ in range(hold):
                            await checkpoint()
                            audit("holding")
                    finally:
                        do_release(a)

        actors = [Actor(h, i, spec["mode"]) for i, spec in enumerate(case["actors"])]
        for ag in case["agents"]:
            if "set_total" in ag:
                h.add_agent(ag["at"], ag["place"],
                            lambda v=ag["set_total"]: set_total(v, "agent"),
                            f"set_total={ag['set_total']}")  # fmt: skip
                continue

            victim = actors[ag["victim"]]

            def fire(victim: Actor = victim) -> None:
                if victim.done or victim.cancel_issued or victim.task is None:
                    return

                if victim in inprog:
                    out["nontrivial"] = True
                    window("cancel_inside_acquire:" + victim.mode)
                    if nwaiting() < len([b for b in inprog]):
                        window("cancel_while_some_grant_in_flight:" + victim.mode)
                elif victim in holders:
                    window("cancel_while_holding")

                victim.cancel()

            h.add_agent(ag["at"], ag["place"], fire, f"cancel->{ag['victim']}")

        await run_actors(h, [(a, body) for a in actors])
        for _ in range(3):
            await checkpoint()

        audit("end")
        if is_sem:
            if res.value != st["permits"] or nwaiting() != 0:
                viol.append(("not-back-to-initial", {"value": res.value, "expected":
                                                     st["permits"], "waiting": nwaiting()}))  # fmt: skip
        else:
            if res.borrowed_tokens != 0 or nwaiting() != 0:
                viol.append(("not-back-to-initial", {"borrowed": res.borrowed_tokens,
                                                     "waiting": nwaiting()}))  # fmt: skip

    info: dict = {"stuck_ticks": 600}
    try:
        run(main, config=case["cfg"], info=info)
    except Deadlock:
        box["h"].apply_freeze()
        inprog = box["inprog"]
        live = [a.name for a in inprog if not a.cancel_issued]
        free_now = box["free"]
        if live and free_now > 0:
            viol.append(("deadlock:live-waiter-with-free-permit",
                         {"waiters": live, "free": free_now}))  # fmt: skip
        elif live and not box["holders"] and box["total"] > 0:
            # nobody holds anything, permits exist, yet a live waiter is stuck: leaked
            viol.append(("deadlock:permit-leaked", {"waiters": live, "free": free_now}))
        else:
            out["skipped_deadlock"] = True
    except BusyLoop:
        box["h"].apply_freeze()
        viol.append(("busy-loop", {}))

    for name, detail in contracts.drain():
        viol.append(("contract:" + name, detail))

    if info.get("callback_errors"):
        viol.append(("exception-in-loop-callback", info["callback_errors"][:3]))

    h = box.get("h")
    out["sig"] = sig_of([case["cfg"], rs["prim"], h.signature() if h else None])
    out["log_tail"] = [list(map(str, e)) for e in (h.log[-30:] if h else [])]
    return out


def all_cases(tier: str, seed: int):  # noqa: ANN201
    cfgs = ["stock", "eager"]
    rcfgs = ["stock", "eager"] * 3 + ["uvloop"]  # a share of the random cases on uvloop
    yield from sweep_cases(cfgs)
    rng = random.Random(seed * 7717 + 10)
    for _ in range(80000 if tier == "thorough" else 8000):
        yield gen_random(rng, rcfgs)


def judge(case: dict, col) -> None:  # noqa: ANN001
    res = execute(case)
    col.case(res["sig"], res["nontrivial"], sample={"case": case, "trace": res["log_tail"]})
    for k, v in res["windows"].items():
        col.count("window:" + k, v)

    if res.get("skipped_deadlock"):
        col.count("skipped_legit_deadlock")

    col.count("prim:" + case["res"]["prim"])
    seen = set()
    for clause, detail in res["viol"]:
        if clause in seen:
            continue

        seen.add(clause)
        col.violation(clause, {"detail": detail, "trace": res["log_tail"]}, case)


def shards(tier: str, seed: int) -> list[dict]:
    return [{"tier": tier, "seed": seed, "shard": i, "of": NSHARDS} for i in range(NSHARDS)]


def run_shard(desc: dict, col) -> None:  # noqa: ANN001
    for i, case in enumerate(all_cases(desc["tier"], desc["seed"])):
        if i % desc["of"] == desc["shard"]:
            guarded(col, case, judge, case, col)

    for k, v in contracts.EVALS.items():
        col.count("contract_evals:" + k, v)


def replay(case: dict, col) -> None:  # noqa: ANN001
    guarded(col, case, judge, case, col)


def finish(col, tier: str) -> None:  # noqa: ANN001
    need = [
        "window:cancel_inside_acquire:scope",
        "window:cancel_inside_acquire:native",
        "window:raise_after_lowered_below_borrowed",
        "contract_evals:limiter",
        "contract_evals:semaphore",
    ]
    for k in need:
        if not col.counters.get(k):
            col.inconclusive_because(f"deciding monitor/window never reached: {k}")

    if col.counters.get("contract_evals:contract_error"):
        col.inconclusive_because("a contract condition raised (observer error)")
