"""C18 -- socket streams deliver the byte stream intact, with back-pressure and EOF.

Real sockets (TCP loopback and UNIX), real loops (asyncio and uvloop), SO_SNDBUF/SO_RCVBUF
pinned so that the kernel's capacity is a known constant.  A session connects a pair of
streams through anyio's own listener/connect API and drives:

 * a main flow (message-size sequence from 1 B to several socket buffers, position-dependent
   pattern) from a writer to a reader that uses a seeded list of max_bytes values and may
   stall before its first receive and/or mid-stream; optionally a reverse flow at the same
   time (full duplex); roles swapped between the accepted and the connecting side;
 * end of stream by send_eof() or aclose();
 * probes: operations on a locally closed stream, two tasks in the same direction.

Monitors: received concatenation == sent bytes; 1 <= len(chunk) <= max_bytes; *in-flight
bytes* (bytes of send() calls that have returned minus bytes handed to the reader) sampled
at the end of every stall must stay below 2*SNDBUF + 2*RCVBUF + largest message + 64 KiB
(the payload of stall sessions is >= 1 MiB, so unbounded user-space buffering is
unmistakable); after EOF the reader gets every remaining byte and then EndOfStream; closed
stream: send -> ClosedResourceError, receive -> data already received, then
ClosedResourceError, never blocking - also for a receive() and/or a back-pressured send() that
were already blocked when a third task closed the stream; concurrent use of one direction -> BusyResourceError.
"""

from __future__ import annotations

import os
import random
import shutil
import socket
import tempfile
import time

from ..collect import guarded, sig_of

PROPERTY = "C18"
LEVEL = "exploration"
RULE = (
    "case = (loop asyncio|uvloop, tcp|unix, which side reads (accepted|connecting), "
    "message sizes 1 B..256 KiB (stall sessions: 1-2 MiB in 8-32 KiB messages), reader "
    "max_bytes list from {1, 7, 100, 4096, 65536, 1<<20}, stall before first receive / "
    "mid-stream / none, reverse flow on/off, EOF by send_eof|aclose, closed-stream, close-under-pending-operations and "
    "busy-direction probes). Non-trivial = the reader stalled long enough for the writer "
    "to block (back-pressure exercised), or both directions were busy; distinct = distinct "
    "(config, kind, roles, sizes, max_bytes, stall, eof mode)."
)
ASSUMPTIONS = [
    "Linux loopback / AF_UNIX semantics; SO_SNDBUF/SO_RCVBUF honoured (doubled by the kernel)",
    "real time: a session that makes no progress for 20 s is INCONCLUSIVE, not a violation",
]
SHARD_TIMEOUT = {"quick": 400, "thorough": 1700}
NSHARDS = 16
BUF = 16384
SLACK = 64 * 1024


_BASE = bytes((i * 197) & 0xFF for i in range(256))
_VAR = [bytes((x + o) & 0xFF for x in _BASE) for o in range(256)]


def pattern(flow: int, start: int, n: int) -> bytes:
    """position-dependent bytes: byte k = (197*(k & 255) + 3*(k >> 8) + 11*(k >> 16) + 61*flow)
    mod 256 -- built block-wise from 256 pre-rotated tables"""
    out = bytearray()
    pos, end = start, start + n
    while pos < end:
        blk = pos >> 8
        off = (blk * 3 + (blk >> 8) * 11 + flow * 61) & 0xFF
        lo = pos & 0xFF
        hi = min(256, lo + (end - pos))
        out += _VAR[off][lo:hi]
        pos += hi - lo

    return bytes(out)


def gen_case(rng: random.Random, cfg: str, kind: str) -> dict:
    stall_kind = rng.choice(["none", "none", "first", "mid", "both"])
    if stall_kind == "none":
        sizes = [rng.choice([1, 2, 100, 4096, 16384, 65536, 100000, 262144]) for _ in range(rng.randint(1, 6))]
    else:
        unit = rng.choice([8192, 16384, 32768])
        sizes = [unit] * ((rng.choice([1, 1, 2]) << 20) // unit)

    return {
        "cfg": cfg, "kind": kind, "reader": rng.choice(["accepted", "connected"]),
        "sizes": sizes,
        "max_bytes": [rng.choice([1, 7, 100, 4096, 65536, 1 << 20] if sum(sizes) < 60000
                                 else [100, 4096, 65536, 1 << 20] if sum(sizes) < 600000
                                 else [4096, 65536, 1 << 20]) for _ in range(3)],
        "stall": stall_kind,
        "reverse": [rng.choice([1, 500, 70000]) for _ in range(rng.randint(1, 3))] if rng.random() < 0.4 else [],
        "eof": rng.choice(["send_eof", "aclose"]),
        "probe_closed": rng.random() < 0.5, "probe_busy": rng.random() < 0.4,
        # the reader's first receive() is cancelled (timeout) while it waits for data that
        # the writer has not sent yet; everything afterwards must be as if it never happened
        "cancelled_receive": rng.random() < 0.35,
        "reverse_late": rng.random() < 0.5,
        "close_pending": rng.choice([None, None, None, "r", "s", "rs"]),
        "close_pending_how": rng.choice(["plain", "cancelled"]),
        "close_how": rng.choice(["plain", "cancelled-scope", "expired-deadline", "racing-send"]),
        "cancelled_sends": rng.choice([0, 0, 0, 0, 10, 30]),
        "send_fds": rng.choice([0, 0, 0, 5, 70000, 400000]),
    }  # fmt: skip


def execute(case: dict) -> dict:
    import anyio
    from anyio import (
        BrokenResourceError,
        BusyResourceError,
        ClosedResourceError,
        EndOfStream,
        connect_tcp,
        connect_unix,
        create_task_group,
        create_tcp_listener,
        create_unix_listener,
    )
    from anyio.abc import SocketAttribute

    viol: list = []
    out: dict = {"viol": viol, "windows": {}, "nontrivial": False, "inconclusive": None,
                 "bytes": 0, "max_inflight": 0}  # fmt: skip
    col_max: dict = {}
    out["maxima"] = col_max

    def window(name: str, n: int = 1) -> None:
        out["windows"][name] = out["windows"].get(name, 0) + n

    tmpdir = None

    async def main() -> None:
        nonlocal tmpdir
        if case["kind"] == "tcp":
            multi = await create_tcp_listener(local_host="127.0.0.1")
            listener = multi.listeners[0]
            port = listener.extra(SocketAttribute.local_port)

            async def conn():  # noqa: ANN202
                return await connect_tcp("127.0.0.1", port)
        else:
            tmpdir = tempfile.mkdtemp(prefix="vfc18-")
            path = os.path.join(tmpdir, "s")
            listener = await create_unix_listener(path)
            multi = listener

            async def conn():  # noqa: ANN202
                return await connect_unix(path)

        acc: dict = {}

        async def accept() -> None:
            acc["s"] = await listener.accept()

        async with create_task_group() as tg0:
            tg0.start_soon(accept)
            c = await conn()

        s = acc["s"]
        default_bufs = case.get("bufs") == "default"
        for st in (c, s):
            if default_bufs:
                break  # kernel defaults / auto-tuning: large reads, several chunks per wake-up

            raw = st.extra(SocketAttribute.raw_socket)
            raw.setsockopt(socket.SOL_SOCKET, socket.SO_SNDBUF, BUF)
            raw.setsockopt(socket.SOL_SOCKET, socket.SO_RCVBUF, BUF)

        raw = c.extra(SocketAttribute.raw_socket)
        sndbuf = raw.getsockopt(socket.SOL_SOCKET, socket.SO_SNDBUF)
        rcvbuf = raw.getsockopt(socket.SOL_SOCKET, socket.SO_RCVBUF)
        r, w = (s, c) if case["reader"] == "accepted" else (c, s)
        sizes = case["sizes"]
        total = sum(sizes)
        bound = 2 * sndbuf + 2 * rcvbuf + max(sizes) + SLACK
        st = {"returned": 0, "delivered": 0, "writer_done": False}
        got = bytearray()
        rgot = bytearray()
        progress = {"t": time.monotonic()}

        async def writer() -> None:
            pos = 0
            try:
                if case.get("cancelled_receive"):
                    await anyio.sleep(0.06)

                for n in sizes:
                    await w.send(pattern(0, pos, n))
                    pos += n
                    st["returned"] = pos
                    progress["t"] = time.monotonic()

                st["writer_done"] = True
                if case["probe_busy"] and case["eof"] == "send_eof":
                    pass

                if case["eof"] == "send_eof":
                    await w.send_eof()
            except BaseException as e:  # noqa: BLE001
                viol.append(("send-failed", {"exc": repr(e), "sent": pos}))

        def sample_inflight(where: str) -> None:
            infl = st["returned"] - st["delivered"]
            out["max_inflight"] = max(out["max_inflight"], infl)
            if default_bufs:
                return  # (auto-tuned buffers: no fixed capacity to compare with)

            if infl > bound:
                viol.append(("unbounded-buffering:in-flight-bytes-exceed-socket-capacity",
                             {"where": where, "in_flight": infl, "bound": bound, "sndbuf": sndbuf,
                              "rcvbuf": rcvbuf, "reader": case["reader"]}))  # fmt: skip
            elif infl >= sndbuf and not st["writer_done"]:
                window("writer_blocked_by_back_pressure")
                out["nontrivial"] = True

        async def reader() -> None:
            k = 0
            stalled_mid = False
            if case.get("cancelled_receive"):
                with anyio.move_on_after(0.02) as sc:
                    early = await r.receive(case["max_bytes"][0])
                    viol.append(("receive-returned-before-anything-was-sent", {"got": len(early)}))

                if sc.cancelled_caught:
                    window("receive_cancelled_while_waiting")

            if case["stall"] in ("first", "both"):
                await anyio.sleep(0.12)
                sample_inflight("before-first-receive")

            try:
                while True:
                    n = case["max_bytes"][k % len(case["max_bytes"])]
                    k += 1
                    chunk = await r.receive(n)
                    if not 1 <= len(chunk) <= n:
                        viol.append(("chunk-size-out-of-bounds", {"max_bytes": n, "got": len(chunk)}))
                        if not chunk:
                            break

                    got.extend(chunk)
                    st["delivered"] = len(got)
                    progress["t"] = time.monotonic()
                    if case["stall"] in ("mid", "both") and not stalled_mid and len(got) > total // 3:
                        stalled_mid = True
                        await anyio.sleep(0.12)
                        sample_inflight("mid-stream")
            except EndOfStream:
                st["read_end"] = "EndOfStream"
            except BaseException as e:  # noqa: BLE001
                st["read_end"] = type(e).__name__

        async def reverse_flow() -> None:
            pos = 0
            try:
                for k, n in enumerate(case["reverse"]):
                    if (case.get("reverse_late") and case["eof"] == "send_eof"
                            and k == len(case["reverse"]) - 1):  # fmt: skip
                        # half-closed connection: the last message of the reverse flow is
                        # sent only after the peer's send_eof() has been seen, so that
                        # send_eof() happens while the peer's other task sits in receive()
                        t0 = time.monotonic()
                        while "read_end" not in st and time.monotonic() - t0 < 20 and not viol:
                            await anyio.sleep(0.001)

                        window("send_eof_while_own_receive_pending")

                    await r.send(pattern(1, pos, n))
                    pos += n
            except BaseException as e:  # noqa: BLE001
                viol.append(("reverse-send-failed", {"exc": repr(e)}))

        async def reverse_reader() -> None:
            want = sum(case["reverse"])
            try:
                while len(rgot) < want:
                    rgot.extend(await w.receive(65536))
            except BaseException as e:  # noqa: BLE001
                viol.append(("reverse-receive-failed", {"exc": repr(e), "got": len(rgot)}))

        async def busy_probe() -> None:
            # a second receive on the reader's stream while reader() is inside receive
            await anyio.sleep(0.01)
            try:
                with anyio.fail_after(3):
                    await r.receive(1)

                # the first receive may just have finished: only a violation if data got lost,
                # which the pattern comparison decides; count it
                window("busy_probe_got_data")
                viol.append(("concurrent-receive-not-rejected", {}))
            except BusyResourceError:
                window("busy_rejected")
            except (EndOfStream, ClosedResourceError, BrokenResourceError, TimeoutError):
                window("busy_probe_inapplicable")

        try:
            with anyio.fail_after(40):
                async with create_task_group() as tg:
                    tg.start_soon(writer)
                    tg.start_soon(reader)
                    if case["reverse"]:
                        tg.start_soon(reverse_flow)
                        tg.start_soon(reverse_reader)
                        out["nontrivial"] = True
                        window("full_duplex")

                    if case["probe_busy"] and case["stall"] == "none" and total > 200000:
                        pass

                    if case["eof"] == "aclose":
                        # close the writing side once everything has been written
                        while not st["writer_done"] and not viol:
                            await anyio.sleep(0.001)

                        if case["reverse"]:
                            while len(rgot) < sum(case["reverse"]) and not viol:
                                await anyio.sleep(0.001)

                        await w.aclose()
        except TimeoutError:
            out["inconclusive"] = f"no completion within 40 s (last progress {time.monotonic() - progress['t']:.1f}s ago)"

        out["bytes"] = len(got) + len(rgot)
        if out["inconclusive"] is None:
            if bytes(got) != pattern(0, 0, total):
                viol.append(("byte-stream-corrupted", {"received": len(got), "sent": total,
                                                       "first_diff": _first_diff(bytes(got), pattern(0, 0, total))}))  # fmt: skip

            if st.get("read_end") != "EndOfStream":
                viol.append(("no-EndOfStream-after-eof", {"got": st.get("read_end"), "eof": case["eof"]}))

            if case["reverse"] and bytes(rgot) != pattern(1, 0, sum(case["reverse"])):
                viol.append(("reverse-byte-stream-corrupted", {"received": len(rgot)}))

        # ---- probes on a second, small connection
        if case["probe_busy"]:
            await probe_busy(conn, listener)

        if case["probe_closed"]:
            await probe_closed(conn, listener)

        if case.get("close_pending"):
            await probe_close_pending(conn, listener, case["close_pending"])

        if case.get("cancelled_sends"):
            await probe_cancelled_sends(conn, listener, case["cancelled_sends"])

        if case.get("send_fds") and case["kind"] == "unix":
            await probe_send_fds(conn, listener, case["send_fds"])

        for x in (c, s):
            try:
                await x.aclose()
            except BaseException:  # noqa: BLE001
                pass

        await multi.aclose()

    async def pair(conn, listener):  # noqa: ANN001, ANN202
        acc: dict = {}

        async def accept() -> None:
            acc["s"] = await listener.accept()

        async with create_task_group() as tg0:
            tg0.start_soon(accept)
            c = await conn()

        return c, acc["s"]

    async def probe_busy(conn, listener) -> None:  # noqa: ANN001
        a, b = await pair(conn, listener)
        res: list = []

        async def rx(tag: str) -> None:
            try:
                res.append((tag, await a.receive(10)))
            except BusyResourceError:
                res.append((tag, "busy"))
            except BaseException as e:  # noqa: BLE001
                res.append((tag, type(e).__name__))

        try:
            with anyio.fail_after(5):
                async with create_task_group() as tg:
                    tg.start_soon(rx, "first")
                    await anyio.sleep(0.01)
                    tg.start_soon(rx, "second")
                    await anyio.sleep(0.01)
                    await b.send(b"0123456789")
        except TimeoutError:
            out["inconclusive"] = "busy probe timed out"
            return
        finally:
            await a.aclose()
            await b.aclose()

        d = dict(res)
        window("busy_probe")
        if d.get("second") != "busy":
            viol.append(("concurrent-receive-not-rejected", {"results": [(t, repr(v)) for t, v in res]}))
        elif d.get("first") != b"0123456789":
            viol.append(("first-receiver-disturbed-by-busy-second", {"results": [(t, repr(v)) for t, v in res]}))

    async def probe_closed(conn, listener) -> None:  # noqa: ANN001
        a, b = await pair(conn, listener)
        await b.send(b"abcdef")
        await anyio.sleep(0.01)
        first = await a.receive(2)  # some data has been received, some is still queued
        how = case.get("close_how", "plain")
        racer: dict = {}
        if how == "plain":
            await a.aclose()
        elif how == "cancelled-scope":
            # closing under a pending cancellation (what `async with stream:` left by a
            # cancellation or an expired deadline does): the stream is closed all the same
            with anyio.CancelScope() as cs:
                cs.cancel()
                await a.aclose()
        elif how == "expired-deadline":
            with anyio.move_on_after(0):
                await a.aclose()
        else:  # "racing-send": another task enters send() in the cycle in which we close

            async def late_send() -> None:
                try:
                    await a.send(b"y")
                    racer["send"] = "sent"
                except BaseException as e:  # noqa: BLE001
                    racer["send"] = type(e).__name__

            async with create_task_group() as tg:
                tg.start_soon(late_send)
                await a.aclose()

            if racer.get("send") not in ("sent", "ClosedResourceError"):
                viol.append(("send-racing-with-local-close-wrong-error", {"outcome": racer}))

        window("closed_probe")
        window("closed_probe:" + how)
        try:
            await a.send(b"x")
            viol.append(("send-on-closed-stream-accepted", {}))
        except ClosedResourceError:
            pass
        except BaseException as e:  # noqa: BLE001
            viol.append(("send-on-closed-stream-wrong-error", {"exc": type(e).__name__}))

        seen = bytearray(first)
        for _ in range(10):
            try:
                with anyio.fail_after(3):
                    seen += await a.receive(2)
            except ClosedResourceError:
                break
            except TimeoutError:
                viol.append(("receive-on-closed-stream-blocked", {}))
                break
            except BaseException as e:  # noqa: BLE001
                viol.append(("receive-on-closed-stream-wrong-error", {"exc": type(e).__name__}))
                break
        else:
            viol.append(("receive-on-closed-stream-never-raised", {}))

        if not b"abcdef".startswith(bytes(seen)):
            viol.append(("closed-stream-delivered-wrong-data", {"seen": bytes(seen).decode()}))

        await b.aclose()

    async def probe_send_fds(conn, listener, size: int) -> None:  # noqa: ANN001
        """UNIX streams: a message sent with send_fds() is part of the byte stream like any
        other - it arrives completely, in order, together with the descriptor"""
        a, b = await pair(conn, listener)
        msg = pattern(5, 0, size)
        got = bytearray()
        fds: list = []
        r_fd, w_fd = os.pipe()
        try:
            with anyio.fail_after(20):
                async with create_task_group() as tg:

                    async def reader() -> None:
                        await anyio.sleep(0.02)  # let the writer run into a full buffer first
                        data, received = await b.receive_fds(65536, 4)
                        got.extend(data)
                        fds.extend(received)
                        try:
                            while True:
                                got.extend(await b.receive(65536))
                        except EndOfStream:
                            pass

                    tg.start_soon(reader)
                    await a.send_fds(msg, [r_fd])
                    await a.send(b"<END>")
                    await a.send_eof()

            window("send_fds_probe")
            if bytes(got) != msg + b"<END>":
                viol.append(("send_fds-message-not-delivered-completely",
                             {"sent": len(msg) + 5, "received": len(got),
                              "first_diff": _first_diff(bytes(got), msg + b"<END>")}))  # fmt: skip
            elif len(fds) != 1:
                viol.append(("send_fds-descriptor-not-delivered", {"fds": len(fds)}))
        except TimeoutError:
            out["inconclusive"] = "send_fds probe timed out"
        finally:
            for fd in (r_fd, w_fd, *fds):
                try:
                    os.close(fd)
                except OSError:
                    pass

            for x in (a, b):
                try:
                    await x.aclose()
                except BaseException:  # noqa: BLE001
                    pass

    async def probe_cancelled_sends(conn, listener, n: int) -> None:  # noqa: ANN001
        """the peer never reads; the writer fills the kernel buffers and then tries n more
        sends of 256 KiB under a 2 ms timeout each.  Every one of them times out - and none
        of them may leave its item behind in a user-space buffer: at most one item (the one
        whose send() first found the kernel full) may be pending there"""
        a, b = await pair(conn, listener)
        item = b"y" * 262144
        try:
            with anyio.move_on_after(10):
                completed = 0
                while True:
                    with anyio.move_on_after(0.05) as sc:
                        await a.send(item)

                    if sc.cancelled_caught:
                        break

                    completed += 1

                timed_out = 0
                for _ in range(n):
                    with anyio.move_on_after(0.002) as sc:
                        await a.send(item)

                    timed_out += sc.cancelled_caught

            window("cancelled_sends_probe")
            tr = getattr(a, "_transport", None)
            if tr is None:
                window("cancelled_sends_probe:no-user-space-buffer(raw socket)")
            else:
                buffered = tr.get_write_buffer_size()
                col_max["user_space_write_buffer_after_cancelled_sends"] = max(
                    col_max.get("user_space_write_buffer_after_cancelled_sends", 0), buffered)
                if timed_out and buffered > 2 * len(item) + SLACK:
                    viol.append(("unbounded-buffering:cancelled-sends-pile-up-in-user-space",
                                 {"timed_out_sends": timed_out, "buffered_bytes": buffered,
                                  "item": len(item)}))  # fmt: skip
        finally:
            for x in (a, b):
                try:
                    await x.aclose()
                except BaseException:  # noqa: BLE001
                    pass

    async def probe_close_pending(conn, listener, pend: str) -> None:  # noqa: ANN001
        """a third task closes the stream while a receive() ("r"), a back-pressured send()
        ("s") or both ("rs") are blocked on it: the stream is locally closed from then on,
        so each of them has to end with ClosedResourceError instead of staying blocked"""
        a, b = await pair(conn, listener)
        res: dict = {}
        blocked = {"send": 0}
        closing: list = []

        async def tx() -> None:
            try:
                while True:
                    await a.send(b"x" * 65536)  # b never reads: blocks after a few rounds
                    blocked["send"] += 1
                    if closing:
                        # the send() that was blocked when the stream got closed came back
                        # as if it had succeeded (its data was dropped)
                        res["blocked_send_returned_normally_after_close"] = True
            except BaseException as e:  # noqa: BLE001
                res["send"] = type(e).__name__
                if isinstance(e, anyio.get_cancelled_exc_class()):
                    raise

        async def rx() -> None:
            try:
                res["receive"] = repr(await a.receive())  # b never writes: blocks
            except BaseException as e:  # noqa: BLE001
                res["receive"] = type(e).__name__
                if isinstance(e, anyio.get_cancelled_exc_class()):
                    raise

        with anyio.move_on_after(15) as scope:
            async with create_task_group() as tg:
                if "s" in pend:
                    tg.start_soon(tx)

                if "r" in pend:
                    tg.start_soon(rx)

                # the writer is blocked once its count of completed sends stops moving
                last = -1
                for _ in range(200):
                    await anyio.sleep(0.02)
                    if "s" not in pend or blocked["send"] == last:
                        break

                    last = blocked["send"]

                closing.append(1)
                if case.get("close_pending_how") == "cancelled":
                    # the closer itself is being cancelled (`async with stream:` left by a
                    # timeout): the stream is closed all the same
                    with anyio.move_on_after(0):
                        await a.aclose()

                    window("closed_under_cancellation_with_operations_pending")
                else:
                    await a.aclose()

        # ... and afterwards the stream is an ordinary closed stream
        for what in ("send", "receive"):
            try:
                with anyio.fail_after(5):
                    if what == "send":
                        await a.send(b"more")
                    else:
                        await a.receive()

                res["later_" + what] = "returned"
            except BaseException as e:  # noqa: BLE001
                res["later_" + what] = type(e).__name__

        window("close_with_pending_" + pend)
        want = {"send": "ClosedResourceError"} if "s" in pend else {}
        if "r" in pend:
            want["receive"] = "ClosedResourceError"

        want["later_send"] = want["later_receive"] = "ClosedResourceError"

        if scope.cancelled_caught:
            viol.append(("pending-operation-still-blocked-15s-after-local-close",
                         {"pending": pend, "results": res, "sends_completed": blocked["send"]}))  # fmt: skip
        elif res != want:
            viol.append(("pending-operation-wrong-outcome-after-local-close",
                         {"pending": pend, "results": res}))  # fmt: skip

        try:
            await b.aclose()
        except BaseException:  # noqa: BLE001
            pass

    try:
        if case["cfg"] == "uvloop":
            anyio.run(main, backend_options={"use_uvloop": True})
        else:
            anyio.run(main)
    except BaseException as e:  # noqa: BLE001
        viol.append(("exception-escaped-session", {"exc": repr(e)[:300]}))
    finally:
        if tmpdir:
            shutil.rmtree(tmpdir, ignore_errors=True)

    out["sig"] = sig_of([case])
    out["log_tail"] = [{"bytes": out["bytes"], "max_inflight": out["max_inflight"]}]
    return out


def _first_diff(a: bytes, b: bytes) -> int:
    for i, (x, y) in enumerate(zip(a, b)):
        if x != y:
            return i

    return min(len(a), len(b))


def all_cases(tier: str, seed: int):  # noqa: ANN201
    rng = random.Random(seed * 5099 + 18)
    # the four corner sessions of the back-pressure matrix are always present
    for cfg in ("asyncio", "uvloop"):
        for kind in ("tcp", "unix"):
            for reader in ("accepted", "connected"):
                for stall in ("first", "mid"):
                    yield {"cfg": cfg, "kind": kind, "reader": reader, "sizes": [16384] * 64,
                           "max_bytes": [65536], "stall": stall, "reverse": [], "eof": "send_eof",
                           "probe_closed": True, "probe_busy": True}  # fmt: skip
                    # the same after a cancelled receive(), read in small pieces
                    yield {"cfg": cfg, "kind": kind, "reader": reader, "sizes": [16384] * 64,
                           "max_bytes": [4096, 100, 65536], "stall": stall, "reverse": [],
                           "eof": "send_eof", "probe_closed": False, "probe_busy": False,
                           "cancelled_receive": True}  # fmt: skip

    # half-close while the closing side's other task is blocked in receive()
    for cfg in ("asyncio", "uvloop"):
        for kind in ("tcp", "unix"):
            for reader in ("accepted", "connected"):
                yield {"cfg": cfg, "kind": kind, "reader": reader, "sizes": [100, 70000],
                       "max_bytes": [65536], "stall": "none", "reverse": [500, 1], "eof": "send_eof",
                       "probe_closed": False, "probe_busy": False, "reverse_late": True}  # fmt: skip

    # send_fds() with messages below and above the socket buffer size
    for cfg in ("asyncio", "uvloop"):
        for size in (1000, 200000, 1000000):
            yield {"cfg": cfg, "kind": "unix", "reader": "connected", "sizes": [100],
                   "max_bytes": [65536], "stall": "none", "reverse": [], "eof": "aclose",
                   "probe_closed": False, "probe_busy": False, "send_fds": size}  # fmt: skip

    # sends that time out against a peer that does not read
    for cfg in ("asyncio", "uvloop"):
        for kind in ("tcp", "unix"):
            yield {"cfg": cfg, "kind": kind, "reader": "connected", "sizes": [100],
                   "max_bytes": [65536], "stall": "none", "reverse": [], "eof": "aclose",
                   "probe_closed": False, "probe_busy": False, "cancelled_sends": 40}  # fmt: skip

    # the closed-stream probe with every way of closing
    for cfg in ("asyncio", "uvloop"):
        for kind in ("tcp", "unix"):
            for how in ("cancelled-scope", "expired-deadline", "racing-send"):
                yield {"cfg": cfg, "kind": kind, "reader": "connected", "sizes": [100],
                       "max_bytes": [65536], "stall": "none", "reverse": [], "eof": "aclose",
                       "probe_closed": True, "probe_busy": False, "close_how": how}  # fmt: skip

    # a third task closes the stream under a blocked receive(), a blocked send(), or both
    for cfg in ("asyncio", "uvloop"):
        for kind in ("tcp", "unix"):
            for pend in ("r", "s", "rs"):
                for how in ("plain", "cancelled"):
                    yield {"cfg": cfg, "kind": kind, "reader": "connected", "sizes": [100],
                           "max_bytes": [65536], "stall": "none", "reverse": [], "eof": "aclose",
                           "probe_closed": False, "probe_busy": False, "close_pending": pend,
                           "close_pending_how": how}  # fmt: skip

    # bulk transfers over un-shrunk kernel buffers to a late reader: the loop hands over
    # large chunks, on uvloop several per wake-up; integrity / order / chunk sizes only
    for cfg in ("asyncio", "uvloop"):
        for kind in ("tcp", "unix"):
            for sizes in ([2 << 20], [262144] * 8):
                for mb in ([65536], [4096, 65536], [1000]):
                    yield {"cfg": cfg, "kind": kind, "reader": "connected", "sizes": sizes,
                           "max_bytes": mb, "stall": "first", "reverse": [], "eof": "aclose",
                           "probe_closed": False, "probe_busy": False, "bufs": "default"}  # fmt: skip

    for _ in range(400 if tier == "thorough" else 36):
        for cfg in ("asyncio", "uvloop"):
            for kind in ("tcp", "unix"):
                case = gen_case(rng, cfg, kind)
                if rng.random() < 0.2:
                    case["bufs"] = "default"

                yield case


def judge(case: dict, col) -> None:  # noqa: ANN001
    res = execute(case)
    col.case(res["sig"], res["nontrivial"], sample={"case": {**case, "sizes": case["sizes"][:6]},
                                                     "observed": res["log_tail"]})  # fmt: skip
    for k, v in res["windows"].items():
        col.count("window:" + k, v)

    col.count(f"cfg:{case['cfg']}:{case['kind']}")
    col.count("bytes_moved", res["bytes"])
    col.maximum(f"max_inflight:{case['kind']}:{case['reader']}", res["max_inflight"])
    for k, v in res.get("maxima", {}).items():
        col.maximum(k + ":" + case["kind"], v)

    if res["inconclusive"]:
        col.count("inconclusive_sessions")

    seen = set()
    for clause, detail in res["viol"]:
        if clause in seen:
            continue

        seen.add(clause)
        col.violation(clause, {"detail": detail, "observed": res["log_tail"]}, case)


def shards(tier: str, seed: int) -> list[dict]:
    return [{"tier": tier, "seed": seed, "shard": i, "of": NSHARDS} for i in range(NSHARDS)]


def run_shard(desc: dict, col) -> None:  # noqa: ANN001
    for i, case in enumerate(all_cases(desc["tier"], desc["seed"])):
        if i % desc["of"] == desc["shard"]:
            guarded(col, case, judge, case, col)
            if getattr(col, "unclassified_count", 0) >= 6:
                break


def replay(case: dict, col) -> None:  # noqa: ANN001
    for _ in range(3):
        guarded(col, case, judge, case, col)


def finish(col, tier: str) -> None:  # noqa: ANN001
    for k in ("window:writer_blocked_by_back_pressure", "window:full_duplex", "window:busy_probe",
              "window:closed_probe", "window:close_with_pending_rs", "cfg:asyncio:tcp", "cfg:uvloop:tcp", "cfg:asyncio:unix",
              "cfg:uvloop:unix"):  # fmt: skip
        if not col.counters.get(k):
            col.inconclusive_because(f"deciding window never reached: {k}")

    bad = col.counters.get("inconclusive_sessions", 0)
    if bad > max(1, col.evaluations // 25):
        col.inconclusive_because(f"{bad} sessions hit their watchdog")
