"""C05 -- leaving a cancel scope leaves no residue in the task or the loop.

Monitors (vf/tree.py): Task.cancelling() after every scope / group exit equals its value at
entry whenever the shadow says nothing enclosing is cancelled; no live loop handle bound to an
exited scope 3 cycles after its exit; the loop consumes a constant number of cycles while
the finished program sits in one long virtual sleep and no foreign handle remains at the
end.  Native-construct twins live in vf/native_twins.py (asyncio.timeout / TaskGroup /
uncancel around absorbed AnyIO cancellations).
"""

from __future__ import annotations

from ..collect import guarded

import itertools

from .. import native_twins, treecheck, treefam

PROPERTY = "C05"
LEVEL = "exploration"
RULE = (
    "case = generated task-tree / cancel-scope program (see vf/treegen.py profile c05: "
    "checkpoints, sleeps, sleep_forever, event waits, nested scopes with shields and "
    "deadlines, task groups, spawn, cancel of any scope/group/handle, shield toggles, raise, "
    "shielded cleanup, catch-cancel-then-continue, handle waits, start() children) + agents "
    "(cancel/shield/deadline/set at a cycle or virtual instant, before|after the tasks' "
    "wake-ups) on {stock, eager}. Non-trivial = a scope absorbed its own cancellation, or a cancel hit a blocked task; distinct = distinct trace signature."
)
ASSUMPTIONS = [
    "asyncio FIFO ready queue (never reordered); VLoop virtual time",
    "generated code never swallows a cancellation (it re-raises, or raises from cleanup)",
    "independent shadow scope model kept in lock-step by the interpreter (vf/shadow.py); "
    "same-instant / in-flight ties accept both coherent outcomes and are counted",
]
SHARD_TIMEOUT = {"quick": 300, "thorough": 1500}


def all_cases(tier: str, seed: int):  # noqa: ANN201
    yield from native_twins.cases()
    yield from treecheck.cases("c05", tier, seed, 4000, 60000, extra=lambda: itertools.chain(treefam.scope_histories(), treefam.nested_handover(),
                                                             treefam.held_request_handover()))


def shards(tier: str, seed: int) -> list[dict]:
    return treecheck.shards(tier, seed)


def judge(case: dict, col) -> None:  # noqa: ANN001
    if case.get("t") in ("twin", "native_through", "native_child_cancels", "native_during_cleanup"):
        res = native_twins.execute(case)
        col.case(res["sig"], True, sample={"case": case, "outcomes": res["log_tail"]})
        for k, v in res["windows"].items():
            col.count("window:" + k, v)

        for _p, clause, detail, *mech in res["viol"]:
            col.violation(clause, detail, case, mech[0] if mech else None)
    else:
        guarded(col, case, treecheck.judge, PROPERTY, case, col)


def run_shard(desc: dict, col) -> None:  # noqa: ANN001
    for i, case in enumerate(all_cases(desc["tier"], desc["seed"])):
        if i % desc["of"] == desc["shard"]:
            guarded(col, case, judge, case, col)


def replay(case: dict, col) -> None:  # noqa: ANN001
    guarded(col, case, judge, case, col)


def finish(col, tier: str) -> None:  # noqa: ANN001
    for k in ['window:twin:timeout_firing', 'window:native_cancel_through_cancelled_scope',
              'window:residue_checked_at_scope_exit', 'window:exited_scope_handles_checked', 'window:scope_exit_with_cancellation']:
        if not col.counters.get(k):
            col.inconclusive_because(f"deciding window never reached: {k}")
