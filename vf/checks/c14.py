"""C14 -- to_thread.run_sync: faithful results, bounded threads, cancellation handled.

Real threads on the real stock asyncio loop and on uvloop, asyncio debug mode on (its
thread-affinity checks act as a race sanitizer), sys.monitoring preemption amplification on
the worker-thread / reporting / limiter code paths (vf/delay.py).

A *call set* is 1-12 concurrent to_thread.run_sync calls against a limiter of 1-4 tokens.
Thread functions are gated (threading.Event): a conductor opens the gates in a seeded
permutation and cancels callers at planned points, so overlap and finish order are forced,
not hoped for.  A thread-safe monitor (own lock, global sequence numbers) records
fn_start / fn_end / cancel events and judges, online, the bound on concurrently running
non-abandoned functions, and offline everything else: identity of returned value / raised
exception, context variables visible in the thread and not leaking back, token accounting,
"the result is still returned when the caller is cancelled while the function runs and the
cancellation lands at the next checkpoint" (abandon_on_cancel=False), check_cancelled() in
the thread, from_thread.run / run_sync results.
"""

from __future__ import annotations

import asyncio
import contextvars
import random
import threading
import time
import warnings

from .. import delay
from ..collect import guarded, sig_of

PROPERTY = "C14"
LEVEL = "exploration"
RULE = (
    "case = call set: limiter total 1-4, 1-12 calls each (kind: return | raise | "
    "from_thread.run callback | from_thread.run_sync callback | check_cancelled probe, "
    "abandon_on_cancel on/off, nested scope on/off, caller's scope shielded or not, worker "
    "MAX_IDLE_TIME default or lowered to 0-4 ms so that idle-worker pruning happens, cancel plan: none | before the function "
    "starts | while it runs | after its gate opened), seeded gate-opening permutation with "
    "sub-millisecond delays, seeded sys.monitoring delay injection; on asyncio(debug) and "
    "uvloop. Non-trivial = more calls than tokens were in flight, or a caller was cancelled "
    "while its function was running; distinct = distinct (config, order of fn_start/fn_end/"
    "cancel/return events)."
)
ASSUMPTIONS = [
    "real time: every call set has a wall-clock watchdog whose firing is INCONCLUSIVE unless "
    "all thread functions are known to have ended (then a hanging caller is a violation)",
    "delay injection only adds pauses the OS scheduler could add itself",
]
SHARD_TIMEOUT = {"quick": 400, "thorough": 1700}
NSHARDS = 16
F23_ABANDONED = "from_thread:callback-of-an-abandoned-thread-joins-a-left-cancelled-scope"
KINDS = ["ret", "ret", "raise", "cb_run", "cb_sync", "check", "cb_sync_fatal", "cb_run_fatal",
         "cb_run_lock", "cb_run_lock"]


class Fatal(BaseException):
    """what a callback run in the loop may raise besides Exceptions (think SystemExit,
    KeyboardInterrupt, a cancellation): the thread that called back must get it"""



class Boom(Exception):
    pass


class FalsyBoom(Boom):
    """an exception object whose truth value is False (empty error collections look like
    this): it is still the exception the function raised"""

    def __bool__(self) -> bool:
        return False


class FalsyValue:
    def __bool__(self) -> bool:
        return False

    def __len__(self) -> int:
        return 0


class Monitor:
    def __init__(self, total: int) -> None:
        self.lock = threading.Lock()
        self.seq = 0
        self.log: list[tuple] = []
        self.total = total
        self.running: set = set()
        self.excused: set = set()  # abandon_on_cancel calls whose cancel has been issued
        self.viol: list[tuple[str, dict]] = []
        self.max_running = 0
        self.seqs: dict = {}

    def ev(self, kind: str, i: int, *payload) -> int:  # noqa: ANN002
        with self.lock:
            self.seq += 1
            self.log.append((self.seq, kind, i, *payload))
            self.seqs[(kind, i)] = self.seq
            if kind == "fn_start":
                self.running.add(i)
                n = len(self.running - self.excused)
                self.max_running = max(self.max_running, n)
                if n > self.total:
                    self.viol.append(
                        ("more-functions-running-than-tokens",
                         {"running": sorted(self.running - self.excused), "total": self.total})  # fmt: skip
                    )
            elif kind == "fn_end":
                self.running.discard(i)
            elif kind == "cancel_issuing" and payload and payload[0]:
                self.excused.add(i)

            return self.seq


warnings.filterwarnings("ignore", message=r"The `cancellable=` keyword", category=DeprecationWarning)


def flag_kwargs(spec: dict) -> dict:
    kw = spec.get("kw", "own")
    if kw == "alias":
        return {"cancellable": spec["abandon"]}
    if kw == "conflict":
        return {"abandon_on_cancel": not spec["abandon"], "cancellable": spec["abandon"]}
    return {"abandon_on_cancel": spec["abandon"]}


def gen_case(rng: random.Random, cfg: str) -> dict:
    total = rng.randint(1, 4)
    n = rng.randint(1, 12)
    calls = []
    for _ in range(n):
        cancel = rng.choice([None, None, "early", "running", "running", "late"])
        kind = rng.choice(KINDS)
        abandon = rng.random() < 0.3
        if kind == "cb_run_lock" and abandon and rng.random() < 0.75:
            # (the abandoned variant is the open finding F23 and each hit costs a spin of
            # SPIN_LIMIT loop iterations: keep it, but rare)
            abandon = False

        calls.append({"kind": kind, "abandon": abandon,
                      "nested": rng.random() < 0.4, "cancel": cancel,
                      "stagger": rng.randint(0, 3),
                      # the cancelled scope around the call may itself be shielded (cleanup
                      # idiom): it is then still the caller's own, visible cancellation
                      "shield": rng.random() < 0.3,
                      # how the flag reaches run_sync: by its own name, by the deprecated
                      # alias `cancellable=` alone, or by both with conflicting values - the
                      # alias is documented to override, so "abandon" stays the effective
                      # value in all three (seeded change C14-g)
                      "kw": rng.choice(["own", "own", "alias", "conflict"])})  # fmt: skip

    order = list(range(n))
    rng.shuffle(order)
    return {"cfg": cfg, "total": total, "calls": calls, "gate_order": order,
            # idle-worker pruning: the pool's MAX_IDLE_TIME (10 s) cannot be waited out in
            # a check, so a share of the cases runs with the class constant lowered
            "max_idle": rng.choice([None, None, 0.0, 0.001, 0.004]),
            "delays": [rng.choice([0, 0, 0.0005, 0.001, 0.002]) for _ in range(2 * n + 2)],
            "inject_seed": rng.randrange(1 << 30)}  # fmt: skip


def execute(case: dict) -> dict:
    import anyio
    from anyio import CancelScope, CapacityLimiter, from_thread, to_thread
    from anyio.lowlevel import checkpoint

    from anyio._backends import _asyncio as A

    viol: list = []
    out: dict = {"viol": viol, "windows": {}, "nontrivial": False, "inconclusive": None}

    def window(name: str, n: int = 1) -> None:
        out["windows"][name] = out["windows"].get(name, 0) + n

    calls = case["calls"]
    n = len(calls)
    mon = Monitor(case["total"])
    cv: contextvars.ContextVar = contextvars.ContextVar("vf_c14", default=None)
    gates = [threading.Event() for _ in range(n)]
    # every third call traffics in objects whose truth value is False
    results = [FalsyValue() if i % 3 == 2 else ("val", i, object()) for i in range(n)]
    booms = [FalsyBoom(i) if i % 3 == 2 else Boom(i) for i in range(n)]
    seen: list = [dict() for _ in range(n)]
    scopes: dict = {}
    outcomes: list = [None] * n
    delay.install(
        [A.WorkerThread.run, A.WorkerThread._report_result,
         A.AsyncIOBackend.run_sync_in_worker_thread, A.AsyncIOBackend.run_sync_from_thread,
         A.AsyncIOBackend.run_async_from_thread, A.AsyncIOBackend.check_cancelled,
         A.CapacityLimiter.release_on_behalf_of, A.CapacityLimiter.acquire_on_behalf_of],
        seed=case["inject_seed"],
    )  # fmt: skip

    async def acb(x: int) -> tuple:
        await checkpoint()
        return ("acb", x)

    SPIN_LIMIT = 800

    async def acb_lock(x: int) -> tuple:
        """takes an uncontended lock: completes after one yield, or - when the caller of
        run_sync has been cancelled (the callback runs in the caller's scope) - is
        cancelled.  What it must not do is neither: a watcher counts loop iterations and
        breaks the callback out after SPIN_LIMIT of them (logical steps, not wall-clock)"""
        import asyncio

        loop = asyncio.get_running_loop()
        me = asyncio.current_task()
        state = {"n": 0, "done": False}

        def tick() -> None:
            if state["done"]:
                return

            state["n"] += 1
            if state["n"] >= SPIN_LIMIT:
                seen[x]["spun"] = state["n"]
                me.cancel()  # native: gets it out of the loop it is stuck in
            else:
                loop.call_soon(tick)

        loop.call_soon(tick)
        try:
            async with anyio.Lock():
                pass
        finally:
            state["done"] = True

        return ("acbl", x)

    def scb(x: int) -> tuple:
        return ("scb", x, threading.get_ident())

    fatals = [Fatal(i) for i in range(n)]

    def scb_fatal(x: int) -> None:
        raise fatals[x]

    async def acb_fatal(x: int) -> None:
        await checkpoint()
        raise fatals[x]

    def make_fn(i: int, spec: dict):  # noqa: ANN202
        def fn():  # noqa: ANN202
            mon.ev("fn_start", i)
            seen[i]["cv"] = cv.get()
            cv.set(("thread", i))  # must stay inside the thread's copy of the context
            seen[i]["thread"] = threading.get_ident()
            if not gates[i].wait(20):
                seen[i]["gate_timeout"] = True

            try:
                if spec["kind"] == "check":
                    c0 = mon.ev("check_call", i)
                    try:
                        from_thread.check_cancelled()
                        raised = False
                    except BaseException as e:  # noqa: BLE001
                        raised = type(e).__name__

                    c1 = mon.ev("check_ret", i, raised)
                    seen[i]["check"] = (c0, c1, raised)
                elif spec["kind"] == "cb_run":
                    try:
                        seen[i]["cb"] = from_thread.run(acb, i)
                    except BaseException as e:  # noqa: BLE001
                        seen[i]["cb_exc"] = repr(e)
                elif spec["kind"] == "cb_run_lock":
                    try:
                        seen[i]["cb"] = from_thread.run(acb_lock, i)
                    except BaseException as e:  # noqa: BLE001
                        seen[i]["cb_exc"] = repr(e)
                elif spec["kind"] == "cb_sync":
                    try:
                        seen[i]["cb"] = from_thread.run_sync(scb, i)
                    except BaseException as e:  # noqa: BLE001
                        seen[i]["cb_exc"] = repr(e)
                elif spec["kind"] in ("cb_sync_fatal", "cb_run_fatal"):
                    mon.ev("cb_fatal_call", i)
                    try:
                        if spec["kind"] == "cb_sync_fatal":
                            from_thread.run_sync(scb_fatal, i)
                        else:
                            from_thread.run(acb_fatal, i)

                        seen[i]["fatal"] = "returned"
                    except BaseException as e:  # noqa: BLE001
                        seen[i]["fatal"] = "same" if e is fatals[i] else repr(e)

                    mon.ev("cb_fatal_ret", i)
            finally:
                mon.ev("fn_end", i)

            if spec["kind"] == "raise":
                raise booms[i]

            return results[i]

        return fn

    async def caller(i: int, spec: dict, limiter) -> None:  # noqa: ANN001
        for _ in range(spec["stagger"]):
            await checkpoint()

        cv.set(("cv", i))
        rec: dict = {"returned": False, "reached_after": False}
        outcomes[i] = rec
        with CancelScope(shield=bool(spec.get("shield"))) as sc:
            scopes[i] = sc
            if spec.get("shield"):
                window("caller_scope_shielded")

            if spec.get("kw", "own") != "own":
                window("flag_passed_by:" + spec["kw"])

            try:
                if spec["nested"]:
                    with CancelScope():
                        v = await to_thread.run_sync(make_fn(i, spec), limiter=limiter,
                                                     **flag_kwargs(spec))  # fmt: skip
                else:
                    v = await to_thread.run_sync(make_fn(i, spec), limiter=limiter,
                                                 **flag_kwargs(spec))  # fmt: skip

                rec["returned"] = True
                rec["value_ok"] = v is results[i]
                mon.ev("call_ret", i)
            except Boom as e:
                rec["raised"] = "boom"
                rec["boom_ok"] = e is booms[i]
                mon.ev("call_raised", i)
            except asyncio.CancelledError:
                rec["raised"] = "cancelled"
                mon.ev("call_cancelled", i)
                raise
            except BaseException as e:  # noqa: BLE001
                rec["raised"] = repr(e)
                mon.ev("call_raised", i)

            rec["cv_after"] = cv.get()
            await checkpoint()
            rec["reached_after"] = True

        rec["cancelled_caught"] = sc.cancelled_caught

    async def conductor(limiter) -> None:  # noqa: ANN001
        di = iter(case["delays"] + [0] * 100)

        async def pause() -> None:
            d = next(di)
            if d:
                await anyio.sleep(d)
            else:
                await checkpoint()

        def issue_cancel(i: int) -> None:
            sc = scopes.get(i)
            if sc is None or ("cancel_issued", i) in mon.seqs:
                return

            mon.ev("cancel_issuing", i, calls[i]["abandon"])
            sc.cancel()
            mon.ev("cancel_issued", i)

        # early cancels: before the function can have started
        await pause()
        for i, spec in enumerate(calls):
            if spec["cancel"] == "early":
                issue_cancel(i)

        for i in case["gate_order"]:
            spec = calls[i]
            if spec["cancel"] == "running":
                # wait (bounded) until the function is really running, then cancel
                t0 = time.monotonic()
                while ("fn_start", i) not in mon.seqs and time.monotonic() - t0 < 0.3:
                    await anyio.sleep(0.0005)

                if ("fn_start", i) in mon.seqs:
                    window("cancel_while_function_running:" + ("abandon" if spec["abandon"] else "wait"))
                    out["nontrivial"] = True

                issue_cancel(i)
                await pause()

            gates[i].set()
            mon.ev("gate_open", i)
            await pause()
            if spec["cancel"] == "late":
                issue_cancel(i)

    async def main() -> None:
        limiter = CapacityLimiter(case["total"])
        try:
            with anyio.fail_after(12):
                async with anyio.create_task_group() as tg:
                    for i, spec in enumerate(calls):
                        tg.start_soon(caller, i, spec, limiter)

                    tg.start_soon(conductor, limiter)
        except TimeoutError:
            ended = all(("fn_end", i) in mon.seqs or ("fn_start", i) not in mon.seqs
                        for i in range(n))  # fmt: skip
            stuck_cb = [i for i in range(n) if ("cb_fatal_call", i) in mon.seqs
                        and ("cb_fatal_ret", i) not in mon.seqs]  # fmt: skip
            if ended:
                viol.append(("caller-never-resumed-although-its-function-ended",
                             {"log_tail": [list(map(str, e)) for e in mon.log[-12:]]}))  # fmt: skip
            elif stuck_cb:
                # the loop is alive (this very timeout ran in it) but the thread's call back
                # into it never returned; the un-abandoned caller can never be released, so
                # this process cannot finish the case: record and leave
                from ..collect import abort_shard

                abort_shard("from_thread-call-never-returned-to-the-thread",
                            {"detail": {"calls": stuck_cb},
                             "events": [list(map(str, e)) for e in mon.log[-30:]]}, case)  # fmt: skip
            else:
                out["inconclusive"] = "watchdog: thread functions still running"
        finally:
            for g in gates:
                g.set()

        # abandoned functions may still be finishing: wait for them (bounded)
        t0 = time.monotonic()
        while mon.running and time.monotonic() - t0 < 5:
            await anyio.sleep(0.002)

        await anyio.sleep(0.002)
        # pool state at quiescence (the property's anchor): every live worker of this loop
        # is back in the idle deque once no function is running any more
        if not mon.running:
            t0 = time.monotonic()
            while True:
                try:
                    workers = set(A._threadpool_workers.get())
                    idle = list(A._threadpool_idle_workers.get())
                except LookupError:
                    workers, idle = set(), []

                busy = [w for w in workers if w not in idle and w.is_alive()]
                if not busy or time.monotonic() - t0 > 1.5:
                    break

                await anyio.sleep(0.002)

            window("pool_state_checked_at_quiescence")
            if busy:
                viol.append(("worker-thread-not-returned-to-the-idle-pool",
                             {"workers": len(workers), "idle": len(idle), "stranded": len(busy)}))  # fmt: skip

        st = limiter.statistics()
        if limiter.borrowed_tokens != 0 or st.tasks_waiting != 0:
            viol.append(("token-not-returned", {"borrowed": limiter.borrowed_tokens,
                                                "waiting": st.tasks_waiting}))  # fmt: skip

    errors: list = []
    saved_idle = A.WorkerThread.MAX_IDLE_TIME
    if case.get("max_idle") is not None:
        A.WorkerThread.MAX_IDLE_TIME = case["max_idle"]
        window("lowered_max_idle_time")

    try:
        if case["cfg"] == "uvloop":
            anyio.run(main, backend_options={"use_uvloop": True, "debug": True})
        else:
            anyio.run(main, backend_options={"debug": True})
    except BaseException as e:  # noqa: BLE001
        errors.append(repr(e))
        viol.append(("exception-escaped-call-set", {"exc": repr(e)}))
    finally:
        A.WorkerThread.MAX_IDLE_TIME = saved_idle

    # ------------------------------------------------------------------ offline oracle
    for clause, detail in mon.viol:
        viol.append((clause, detail))

    if mon.max_running >= min(case["total"], n) and n > case["total"]:
        out["nontrivial"] = True
        window("limiter_saturated")

    for i, spec in enumerate(calls):
        rec = outcomes[i] or {}
        started = ("fn_start", i) in mon.seqs
        if seen[i].get("gate_timeout"):
            out["inconclusive"] = "gate timeout"
            continue

        cancel_before = mon.seqs.get(("cancel_issuing", i))
        cancel_after = mon.seqs.get(("cancel_issued", i))
        fs = mon.seqs.get(("fn_start", i))
        if started:
            if seen[i].get("cv") != ("cv", i):
                viol.append(("contextvar-not-visible-in-thread", {"call": i, "seen": seen[i].get("cv")}))

            if rec.get("returned") or rec.get("raised") == "boom":
                if rec.get("cv_after") != ("cv", i):
                    viol.append(("thread-context-leaked-into-caller",
                                 {"call": i, "cv_after": rec.get("cv_after")}))  # fmt: skip

        if rec.get("returned"):
            if not started:
                viol.append(("returned-without-running-the-function", {"call": i}))
            elif not rec.get("value_ok") or spec["kind"] == "raise":
                viol.append(("wrong-value-returned", {"call": i, "kind": spec["kind"]}))
        elif rec.get("raised") == "boom":
            if spec["kind"] != "raise" or not rec.get("boom_ok"):
                viol.append(("wrong-exception-raised", {"call": i}))
        elif rec.get("raised") == "cancelled":
            if cancel_before is None:
                viol.append(("cancelled-without-cancel", {"call": i}))
            elif started and not spec["abandon"] and fs < cancel_before:
                # the function was already running when the caller was cancelled: with
                # abandon_on_cancel=False its result must still be returned
                viol.append(("result-lost:cancellation-took-effect-while-function-ran",
                             {"call": i, "fn_start": fs, "cancel": cancel_before}))  # fmt: skip
        elif rec.get("raised"):
            viol.append(("unexpected-exception", {"call": i, "exc": rec.get("raised")}))

        # pending cancellation is delivered at the next checkpoint
        if (rec.get("returned") or rec.get("raised") == "boom") and cancel_after is not None:
            ret = mon.seqs.get(("call_ret", i)) or mon.seqs.get(("call_raised", i))
            if ret is not None and cancel_after < ret and rec.get("reached_after"):
                viol.append(("pending-cancellation-not-delivered-at-next-checkpoint", {"call": i}))

        if spec["kind"] == "check" and "check" in seen[i]:
            c0, c1, raised = seen[i]["check"]
            if cancel_after is not None and c0 > cancel_after and not raised:
                viol.append(("check_cancelled-did-not-raise-after-cancel", {"call": i}))
            elif (cancel_before is None or c1 < cancel_before) and raised:
                viol.append(("check_cancelled-raised-without-cancel", {"call": i, "exc": raised}))
            elif raised:
                window("check_cancelled_raised")

        if spec["kind"] in ("cb_sync_fatal", "cb_run_fatal") and "fatal" in seen[i]:
            window("callback_raised_non_Exception")
            if seen[i]["fatal"] != "same" and cancel_before is None:
                viol.append(("from_thread-callback-exception-not-delivered-to-the-thread",
                             {"call": i, "kind": spec["kind"], "got": seen[i]["fatal"]}))  # fmt: skip

        if spec["kind"] == "cb_run" and started:
            if seen[i].get("cb") != ("acb", i) and "cb_exc" not in seen[i]:
                viol.append(("from_thread.run-wrong-value", {"call": i, "got": seen[i].get("cb")}))
            elif "cb_exc" in seen[i] and cancel_before is None:
                viol.append(("from_thread.run-failed", {"call": i, "exc": seen[i]["cb_exc"]}))

        if spec["kind"] == "cb_run_lock" and started:
            window("callback_acquires_uncontended_lock" +
                   (":caller_cancelled_before" if cancel_before is not None else ""))  # fmt: skip
            if "spun" in seen[i]:
                # F23: the thread was abandoned (abandon_on_cancel=True, caller cancelled), so
                # the scope its callbacks join has been left: nothing delivers to it any more
                mech = F23_ABANDONED if spec["abandon"] and cancel_before is not None else None
                viol.append(("from_thread.run-callback-neither-completes-nor-is-cancelled",
                             {"call": i, "loop_iterations": seen[i]["spun"], "abandon": spec["abandon"],
                              "caller_cancelled": cancel_before is not None}, mech))  # fmt: skip
            elif seen[i].get("cb") != ("acbl", i) and "cb_exc" not in seen[i]:
                viol.append(("from_thread.run-wrong-value", {"call": i, "got": seen[i].get("cb")}))
            elif "cb_exc" in seen[i] and cancel_before is None:
                viol.append(("from_thread.run-failed", {"call": i, "exc": seen[i]["cb_exc"]}))

        if spec["kind"] == "cb_sync" and started:
            cb = seen[i].get("cb")
            if "cb_exc" in seen[i]:
                viol.append(("from_thread.run_sync-failed", {"call": i, "exc": seen[i]["cb_exc"]}))
            elif not (isinstance(cb, tuple) and cb[:2] == ("scb", i)):
                viol.append(("from_thread.run_sync-wrong-value", {"call": i, "got": repr(cb)}))
            elif cb[2] == seen[i].get("thread"):
                viol.append(("from_thread.run_sync-not-in-loop-thread", {"call": i}))

    st = delay.stats()
    out["inject"] = st
    out["sig"] = sig_of([case["cfg"], [(e[1], e[2]) for e in mon.log]])
    out["log_tail"] = [list(map(str, e)) for e in mon.log[-40:]]
    return out


def all_cases(tier: str, seed: int):  # noqa: ANN201
    rng = random.Random(seed * 4243 + 14)
    for _ in range(2500 if tier == "thorough" else 200):
        for cfg in ("asyncio", "uvloop"):
            yield gen_case(rng, cfg)


def judge(case: dict, col) -> None:  # noqa: ANN001
    res = execute(case)
    col.case(res["sig"], res["nontrivial"], sample={"case": case, "events": res["log_tail"][:25]})
    for k, v in res["windows"].items():
        col.count("window:" + k, v)

    col.count("cfg:" + case["cfg"])
    col.count("calls", len(case["calls"]))
    for k, v in res["inject"].items():
        col.count("inject:" + k, v)

    if res["inconclusive"]:
        col.count("inconclusive_callsets")
        col.inconclusive_because(res["inconclusive"]) if False else None

    seen = set()
    for clause, detail, *mech in res["viol"]:
        m = mech[0] if mech else None
        if (clause, m) in seen:
            continue

        seen.add((clause, m))
        col.violation(clause, {"detail": detail, "events": res["log_tail"]}, case, m)


def shards(tier: str, seed: int) -> list[dict]:
    return [{"tier": tier, "seed": seed, "shard": i, "of": NSHARDS} for i in range(NSHARDS)]


def run_shard(desc: dict, col) -> None:  # noqa: ANN001
    for i, case in enumerate(all_cases(desc["tier"], desc["seed"])):
        if i % desc["of"] == desc["shard"]:
            guarded(col, case, judge, case, col)
            if getattr(col, "unclassified_count", 0) >= 6:
                break


def replay(case: dict, col) -> None:  # noqa: ANN001
    for _ in range(5):  # real threads: repeat, schedules vary
        guarded(col, case, judge, case, col)


def finish(col, tier: str) -> None:  # noqa: ANN001
    for k in ("window:limiter_saturated", "window:cancel_while_function_running:wait",
              "window:cancel_while_function_running:abandon", "inject:injections",
              "window:check_cancelled_raised"):  # fmt: skip
        if not col.counters.get(k):
            col.inconclusive_because(f"deciding window never reached: {k}")

    bad = col.counters.get("inconclusive_callsets", 0)
    if bad > max(2, col.evaluations // 20):
        col.inconclusive_because(f"{bad} call sets hit their watchdog")
