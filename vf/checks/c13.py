"""C13 -- memory object streams: closing wakes everyone and errors tell the truth.

Workload and monitors live in vf/memstream.py (shared with C12); this check runs the C13
generator profile (histories of clone / close / double close / send / receive on 1-3 clones
per side plus harness-held spare clones that an agent closes at a chosen cycle, so that the
*last* close of a side happens while any number of peers are blocked) and reports the C13
clauses: truthfulness of EndOfStream / BrokenResourceError / ClosedResourceError at the
instant raised, open-clone counters vs. the monitor's own count at every op boundary, and
justified deadlocks (a task blocked although the peer side is fully closed).
"""

from __future__ import annotations

from ..collect import guarded

import random

from .. import contracts, memstream

PROPERTY = "C13"
LEVEL = "exploration"
RULE = (
    "case = (loop config, buffer size, 1-3 sender and receiver actors each owning one clone "
    "with op lists of send/receive (blocking|nowait), clone, close_clone, close (once or "
    "twice), operations after close; spare clones closed by an agent at a chosen cycle and "
    "placement; optional cancel agents); exhaustive sweep of the last-close cycle 1..9 x "
    "placement x k=1..3 blocked peers x buffer size x side, plus seeded random histories. "
    "Non-trivial = the last clone of a side was closed while a peer was blocked on the "
    "other side; distinct = distinct trace signature."
)
ASSUMPTIONS = [
    "asyncio FIFO ready queue (never reordered)",
    "a handle is closed only by the actor using it, never while an operation is blocked on "
    "that very handle (the statement speaks of peers and of operations invoked on a closed "
    "handle)",
]
SHARD_TIMEOUT = {"quick": 300, "thorough": 1500}
NSHARDS = 16
MINE = "C13"


def all_cases(tier: str, seed: int):  # noqa: ANN201
    cfgs = ["stock", "eager"]
    rcfgs = ["stock", "eager"] * 3 + ["uvloop"]  # a share of the random cases on uvloop
    yield from memstream.payload_cases()
    yield from memstream.sweep_c13(cfgs)
    rng = random.Random(seed * 6163 + 13)
    for _ in range(80000 if tier == "thorough" else 8000):
        yield memstream.gen_c13(rng, rcfgs)


def judge(case: dict, col) -> None:  # noqa: ANN001
    res = memstream.execute_payload(case) if case.get("t") == "payload" else memstream.execute(case)
    col.case(res["sig"], res["nontrivial"], sample={"case": case, "trace": res["log_tail"]})
    for k, v in res["windows"].items():
        col.count("window:" + k, v)

    if res.get("skipped_deadlock"):
        col.count("skipped_legit_deadlock")

    seen = set()
    for prop, clause, detail, mech in res["viol"]:
        if prop != MINE:
            col.count("other_property_clause:" + prop + ":" + clause)
            continue

        if (clause, mech) in seen:
            continue

        seen.add((clause, mech))
        col.violation(clause, {"detail": detail, "trace": res["log_tail"]}, case, mech)


def shards(tier: str, seed: int) -> list[dict]:
    return [{"tier": tier, "seed": seed, "shard": i, "of": NSHARDS} for i in range(NSHARDS)]


def run_shard(desc: dict, col) -> None:  # noqa: ANN001
    for i, case in enumerate(all_cases(desc["tier"], desc["seed"])):
        if i % desc["of"] == desc["shard"]:
            guarded(col, case, judge, case, col)

    for k, v in contracts.EVALS.items():
        col.count("contract_evals:" + k, v)


def replay(case: dict, col) -> None:  # noqa: ANN001
    guarded(col, case, judge, case, col)


def finish(col, tier: str) -> None:  # noqa: ANN001
    need = [
        "window:last_send_close_with_blocked_receivers",
        "window:last_receive_close_with_blocked_senders",
    ]
    for k in need:
        if not col.counters.get(k):
            col.inconclusive_because(f"deciding window never reached: {k}")
