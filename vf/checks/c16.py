"""C16 -- BufferedByteReceiveStream / TextReceiveStream / TextSendStream are transparent to
chunking.

Reference-model monitor.  The harness owns the wrapped stream, so it knows the exact order
in which bytes entered the wrapper (``timeline``: chunks pulled from the wrapped stream and
feed_data() calls, in the order they happened).  After every call on the real wrapper the
oracle checks the conservation/ordering identity

    handed_out ++ consumed_delimiters ++ wrapper.buffer == timeline

and the per-call postconditions of receive / receive_exactly / receive_until against the
unconsumed byte sequence known to the harness at call time.  Text streams are compared
with codecs.decode() of the whole input for every split.
"""

from __future__ import annotations

from ..collect import guarded_async

import codecs
import functools
import itertools as I
import random

PROPERTY = "C16"
LEVEL = "exploration"
RULE = (
    "buffered: (byte string, chunking, wrapped stream kind, call sequence) -- exhaustive "
    "over strings over {a,b,\\n} up to length 6 (7 in thorough) x all compositions into "
    "non-empty chunks x {byte stream honouring max_bytes, object stream} x every single "
    "call (receive n=0..4, receive_exactly n=0..5, receive_until with 3 delimiters x "
    "max_bytes 0..5) followed by a full drain, plus seeded call sequences of length 2-6 "
    "with interleaved feed_data and seeded longer inputs, plus seeded histories in which "
    "feed_data arrives while a call is suspended in the wrapped stream (judged by per-origin "
    "conservation); text: code points of 1-4 byte "
    "classes x utf-8/16/32/latin-1 (+le/be variants) x every 1- and 2-cut split and "
    "seeded multi-cut splits, and TextSendStream->TextReceiveStream round trips of 1-4 "
    "sends re-chunked at every offset. Non-trivial = a call started with a non-empty "
    "buffer or spanned a chunk boundary / a split inside a multi-byte character; distinct "
    "by (input, chunking, kind, calls)."
)
ASSUMPTIONS = [
    "chunks delivered by the wrapped stream are non-empty (a chunking is a partition)",
    "codecs.decode()/str.join are the reference for text",
]
SHARD_TIMEOUT = {"quick": 300, "thorough": 1500}
NSHARDS = 16
DELIMS = [b"\n", b"ab", b"aba"]


def compositions(n: int):  # noqa: ANN201
    """All ways to cut range(n) into non-empty consecutive parts (as cut-point tuples)."""
    if n == 0:
        yield ()
        return

    for mask in range(1 << (n - 1)):
        yield tuple(i + 1 for i in range(n - 1) if mask >> i & 1)


def cut(data: bytes, cuts) -> list[bytes]:  # noqa: ANN001
    pts = [0, *cuts, len(data)]
    return [data[a:b] for a, b in zip(pts, pts[1:]) if b > a]


# ---------------------------------------------------------------------------------------
# buffered
# ---------------------------------------------------------------------------------------
@functools.cache
def _mk_streams():  # noqa: ANN202
    from anyio import EndOfStream
    from anyio.abc import ByteReceiveStream, ObjectReceiveStream

    class HByte(ByteReceiveStream):
        def __init__(self, chunks, timeline) -> None:  # noqa: ANN001
            self.chunks = list(chunks)
            self.timeline = timeline
            self.pulls = 0

        async def receive(self, max_bytes: int = 65536) -> bytes:
            if not self.chunks:
                raise EndOfStream

            self.pulls += 1
            c = self.chunks[0]
            out, rest = c[:max_bytes], c[max_bytes:]
            if rest:
                self.chunks[0] = rest
            else:
                self.chunks.pop(0)

            self.timeline.extend(out)
            return out

        def rest(self) -> bytes:
            return b"".join(self.chunks)

        async def aclose(self) -> None:
            pass

    class HObj(ObjectReceiveStream[bytes]):
        def __init__(self, chunks, timeline) -> None:  # noqa: ANN001
            self.chunks = list(chunks)
            self.timeline = timeline
            self.pulls = 0

        async def receive(self) -> bytes:
            if not self.chunks:
                raise EndOfStream

            self.pulls += 1
            c = self.chunks.pop(0)
            self.timeline.extend(c)
            return c

        def rest(self) -> bytes:
            return b"".join(self.chunks)

        async def aclose(self) -> None:
            pass

    return HByte, HObj


async def run_buffered(case: dict, col) -> None:  # noqa: ANN001
    from anyio import DelimiterNotFound, EndOfStream, IncompleteRead
    from anyio.streams.buffered import BufferedByteReceiveStream

    HByte, HObj = _mk_streams()
    data = bytes(case["data"], "latin-1")
    chunks = cut(data, case["cuts"])
    timeline = bytearray()
    inner = (HByte if case["kind"] == "byte" else HObj)(chunks, timeline)
    s = BufferedByteReceiveStream(inner)
    consumed = bytearray()  # handed out + delimiters, in order
    nontrivial = False
    viol: list = []

    def identity(where: str) -> None:
        if bytes(consumed) + s.buffer != bytes(timeline):
            viol.append(
                (
                    "accounting-identity",
                    {"after": where, "consumed": bytes(consumed), "buffer": s.buffer,
                     "timeline": bytes(timeline)},  # fmt: skip
                )
            )

    calls = list(case["calls"]) + [["drain"]]
    for call in calls:
        op = call[0]
        before_buf = s.buffer
        unconsumed = before_buf + inner.rest()
        pulls0 = inner.pulls
        if before_buf:
            nontrivial = True

        if op == "feed":
            d = bytes(call[1], "latin-1")
            s.feed_data(d)
            timeline.extend(d)
            identity("feed")
            continue

        if op == "drain":
            # everything that is left must come out, in order, then EndOfStream
            out = bytearray()
            for _ in range(len(unconsumed) + 2):
                try:
                    r = await s.receive(3)
                except EndOfStream:
                    break

                if not 1 <= len(r) <= 3:
                    viol.append(("receive-size", {"n": 3, "got": r}))
                    break

                out += r
                consumed += r
            else:
                viol.append(("drain-no-eof", {"out": bytes(out)}))

            if bytes(out) != unconsumed:
                viol.append(("drain-mismatch", {"out": bytes(out), "expected": unconsumed}))

            identity("drain")
            continue

        if op == "receive":
            n = call[1]
            try:
                r = await s.receive(n)
            except ValueError:
                if n >= 1:
                    viol.append(("receive-unexpected-ValueError", {"n": n}))

                identity("receive-error")
                continue
            except EndOfStream:
                if unconsumed or n < 1:
                    viol.append(("receive-early-eof", {"n": n, "unconsumed": unconsumed}))

                identity("receive-eof")
                continue

            if n < 1:
                viol.append(("receive-accepted-bad-max_bytes", {"n": n, "got": r}))
            elif not 1 <= len(r) <= n:
                viol.append(("receive-size", {"n": n, "got": r}))

            if unconsumed[: len(r)] != r:
                viol.append(("receive-wrong-bytes", {"got": r, "unconsumed": unconsumed}))

            consumed += r
            identity("receive")
        elif op == "exactly":
            n = call[1]
            try:
                r = await s.receive_exactly(n)
            except IncompleteRead:
                if len(unconsumed) >= n:
                    viol.append(("exactly-spurious-IncompleteRead",
                                 {"n": n, "unconsumed": unconsumed}))  # fmt: skip

                identity("exactly-incomplete")
                continue

            if len(r) != n or unconsumed[:n] != r:
                viol.append(("exactly-wrong", {"n": n, "got": r, "unconsumed": unconsumed}))

            consumed += r
            identity("exactly")
        elif op == "until":
            d, m = bytes(call[1], "latin-1"), call[2]
            idx = unconsumed.find(d)
            try:
                r = await s.receive_until(d, m)
            except DelimiterNotFound:
                if d in unconsumed[:m]:
                    viol.append(("until-spurious-DelimiterNotFound",
                                 {"delim": d, "max": m, "unconsumed": unconsumed}))  # fmt: skip

                identity("until-dnf")
                continue
            except IncompleteRead:
                if idx >= 0:
                    viol.append(("until-spurious-IncompleteRead",
                                 {"delim": d, "max": m, "unconsumed": unconsumed}))  # fmt: skip

                identity("until-incomplete")
                continue

            if idx < 0 or r != unconsumed[:idx] or d in r:
                viol.append(("until-wrong-result",
                             {"delim": d, "max": m, "got": r, "unconsumed": unconsumed}))  # fmt: skip

            consumed += r + d
            identity("until")

        if inner.pulls - pulls0 >= 2 or (before_buf and inner.pulls > pulls0):
            nontrivial = True

    col.case([case], nontrivial, sample=case)
    col.count("buffered_cases")
    col.count("buffered_calls", len(calls))
    for clause, detail in viol:
        col.violation("buffered:" + clause, _jsonable(detail), case)


async def run_buffered_midfeed(case: dict, col) -> None:  # noqa: ANN001
    """feed_data() arriving WHILE a call on the wrapper is suspended in the wrapped stream's
    receive() (another task / a callback feeding).  The relative order of the fed bytes and
    the chunk being fetched is not determined then, so the oracle is conservation per origin:
    source bytes (lower case / newline) come out in source order, fed bytes (upper case) in
    feed order, nothing is lost or duplicated, sizes are respected."""
    from anyio import DelimiterNotFound, EndOfStream, IncompleteRead
    from anyio.streams.buffered import BufferedByteReceiveStream

    HByte, HObj = _mk_streams()
    data = bytes(case["data"], "latin-1")
    chunks = cut(data, case["cuts"])
    timeline = bytearray()
    inner = (HByte if case["kind"] == "byte" else HObj)(chunks, timeline)
    s = BufferedByteReceiveStream(inner)
    fed = bytearray()
    plan = {int(k): bytes(v, "latin-1") for k, v in case["midfeed"].items()}
    orig_receive = inner.receive

    async def receive_with_feed(*a):  # noqa: ANN002, ANN202
        # (called by the wrapper; the feed happens while the wrapper's call is suspended)
        d = plan.pop(inner.pulls, None)
        if d and inner.chunks:
            s.feed_data(d)
            fed.extend(d)

        return await orig_receive(*a)

    inner.receive = receive_with_feed  # type: ignore[method-assign]
    consumed = bytearray()
    viol: list = []
    calls = list(case["calls"]) + [["drain"]]
    for call in calls:
        op = call[0]
        try:
            if op == "receive":
                r = await s.receive(call[1])
                if not 1 <= len(r) <= call[1]:
                    viol.append(("receive-size", {"n": call[1], "got": r}))

                consumed += r
            elif op == "exactly":
                r = await s.receive_exactly(call[1])
                if len(r) != call[1]:
                    viol.append(("exactly-wrong", {"n": call[1], "got": r}))

                consumed += r
            elif op == "until":
                d = bytes(call[1], "latin-1")
                try:
                    r = await s.receive_until(d, call[2])
                except DelimiterNotFound:
                    if d in bytes(s.buffer)[: call[2]]:
                        viol.append(("DelimiterNotFound-although-the-delimiter-is-within-max_bytes",
                                     {"delim": d, "max_bytes": call[2], "buffer": bytes(s.buffer)}))  # fmt: skip

                    raise

                if d in r:
                    viol.append(("until-result-includes-the-delimiter", {"delim": d, "got": r}))

                consumed += r + d
            elif op == "drain":
                for _ in range(len(data) + 200):
                    r = await s.receive(3)
                    if not 1 <= len(r) <= 3:
                        viol.append(("receive-size", {"n": 3, "got": r}))
                        break

                    consumed += r
        except (EndOfStream, IncompleteRead, DelimiterNotFound, ValueError):
            pass

    src_out = bytes(b for b in consumed if not 65 <= b <= 90)
    fed_out = bytes(b for b in consumed if 65 <= b <= 90)
    if src_out != data or fed_out != bytes(fed):
        viol.append(("midfeed:bytes-lost-duplicated-or-reordered",
                     {"source": data, "source_out": src_out, "fed": bytes(fed), "fed_out": fed_out}))  # fmt: skip

    col.case([case], bool(fed), sample=case)
    col.count("buffered_midfeed_cases")
    if fed:
        col.count("window:feed_data_during_suspended_call")

    for clause, detail in viol:
        col.violation("buffered:" + clause, _jsonable(detail), case)


def _jsonable(d):  # noqa: ANN001, ANN202
    if isinstance(d, dict):
        return {k: _jsonable(v) for k, v in d.items()}

    if isinstance(d, (bytes, bytearray)):
        return bytes(d).decode("latin-1")

    return d


def single_calls():  # noqa: ANN201
    for n in range(0, 5):
        yield ["receive", n]

    for n in range(0, 6):
        yield ["exactly", n]

    for d in DELIMS:
        for m in range(0, 6):
            yield ["until", d.decode(), m]


def random_call(rng: random.Random) -> list:
    r = rng.random()
    if r < 0.25:
        return ["receive", rng.choice([1, 1, 2, 3, 4, 7, 0, -1])]

    if r < 0.5:
        return ["exactly", rng.choice([0, 1, 2, 3, 4, 5, 8])]

    if r < 0.85:
        return ["until", rng.choice(DELIMS).decode(), rng.choice([0, 1, 2, 3, 4, 5, 8, 64])]

    return ["feed", "".join(rng.choice("ab\n") for _ in range(rng.randrange(0, 4)))]


def buffered_cases(tier: str, seed: int):  # noqa: ANN201
    rng = random.Random(seed * 1009 + 16)
    maxlen = 7 if tier == "thorough" else 6
    singles = list(single_calls())
    for ln in range(0, maxlen + 1):
        for t in I.product("ab\n", repeat=ln):
            data = "".join(t)
            for cuts in compositions(ln):
                for kind in ("byte", "obj"):
                    for c in singles:
                        yield {"t": "buf", "data": data, "cuts": list(cuts), "kind": kind,
                               "calls": [c]}  # fmt: skip

                    for _ in range(3 if tier == "thorough" else 1):
                        calls = [random_call(rng) for _ in range(rng.randrange(2, 7))]
                        yield {"t": "buf", "data": data, "cuts": list(cuts), "kind": kind,
                               "calls": calls}  # fmt: skip

    # feed_data() while a call is suspended in the wrapped stream
    for _ in range(20000 if tier == "thorough" else 2500):
        ln = rng.randrange(1, 14)
        data = "".join(rng.choice("aab\n") for _ in range(ln))
        cuts = sorted(rng.sample(range(1, ln), rng.randrange(0, min(ln - 1, 5)))) if ln > 1 else []
        calls = [c for c in (random_call(rng) for _ in range(rng.randrange(1, 6)))
                 if c[0] != "feed" and not (c[0] == "receive" and c[1] < 1)]  # fmt: skip
        midfeed = {str(rng.randrange(0, 5)): "".join(rng.choice("XYZ") for _ in range(rng.randrange(1, 4)))
                   for _ in range(rng.randrange(1, 3))}  # fmt: skip
        yield {"t": "bufmid", "data": data, "cuts": cuts, "kind": rng.choice(["byte", "obj"]),
               "calls": calls, "midfeed": midfeed}  # fmt: skip
        # ... and the fed bytes contain the delimiter a suspended receive_until() looks for
        # (an upper-case one, so that the per-origin accounting still works)
        calls2 = [["until", "Q", rng.choice([2, 3, 5, 8, 100])] if c[0] == "until" else c for c in calls]
        calls2.insert(rng.randrange(0, len(calls2) + 1), ["until", "Q", rng.choice([3, 5, 100])])
        midfeed2 = {k: rng.choice(["XQY", "Q", "XQ", "QY", "XYQZ"]) for k in midfeed}
        yield {"t": "bufmid", "data": data, "cuts": cuts, "kind": rng.choice(["byte", "obj"]),
               "calls": calls2, "midfeed": midfeed2}  # fmt: skip

    for _ in range(60000 if tier == "thorough" else 6000):
        ln = rng.randrange(6, 40)
        data = "".join(rng.choice("aab\n") for _ in range(ln))
        cuts = sorted(rng.sample(range(1, ln), rng.randrange(0, min(ln - 1, 8))))
        calls = [random_call(rng) for _ in range(rng.randrange(1, 8))]
        yield {"t": "buf", "data": data, "cuts": cuts, "kind": rng.choice(["byte", "obj"]),
               "calls": calls}  # fmt: skip


# ---------------------------------------------------------------------------------------
# text
# ---------------------------------------------------------------------------------------
ENCODINGS = ["utf-8", "utf-16", "utf-32", "latin-1", "utf-16-le", "utf-16-be", "utf-32-le",
             "utf-8-sig"]  # fmt: skip
CLASSES = {1: "aZ~", 2: "éßЖ", 3: "€中ह", 4: "\U0001f600\U00010348"}


async def run_text_receive(case: dict, col) -> None:  # noqa: ANN001
    from anyio import EndOfStream
    from anyio.streams.text import TextReceiveStream

    _, HObj = _mk_streams()
    enc = case["enc"]
    text = case["text"]
    raw = text.encode(enc)
    chunks = cut(raw, case["cuts"])
    inner = HObj(chunks, bytearray())
    s = TextReceiveStream(inner, encoding=enc)
    outs: list[str] = []
    viol = []
    for _ in range(len(raw) + 2):
        try:
            r = await s.receive()
        except EndOfStream:
            break

        if r == "":
            viol.append(("text-empty-item", {"outs": outs}))

        outs.append(r)
    else:
        viol.append(("text-no-eof", {}))

    expected = codecs.decode(raw, enc)
    # a split is inside a character if some cut is not on a character boundary
    bounds = set()
    pos = len(text[:0].encode(enc))
    enc_inc = codecs.getincrementalencoder(enc)()
    pos = 0
    for ch in text:
        pos += len(enc_inc.encode(ch))
        bounds.add(pos)

    nontrivial = any(c not in bounds for c in case["cuts"])
    col.case([case], nontrivial, sample={"case": case, "outs": outs})
    col.count("text_receive_cases")
    if "".join(outs) != expected:
        viol.append(("text-decode-mismatch", {"outs": outs, "expected": expected}))

    for clause, detail in viol:
        col.violation("text:" + clause, detail, case)


async def run_text_roundtrip(case: dict, col) -> None:  # noqa: ANN001
    from anyio import EndOfStream
    from anyio.abc import ObjectSendStream
    from anyio.streams.text import TextReceiveStream, TextSendStream

    _, HObj = _mk_streams()
    enc = case["enc"]

    class Sink(ObjectSendStream[bytes]):
        def __init__(self) -> None:
            self.items: list[bytes] = []

        async def send(self, item: bytes) -> None:
            self.items.append(bytes(item))

        async def aclose(self) -> None:
            pass

    sink = Sink()
    ts = TextSendStream(sink, encoding=enc)
    for item in case["sends"]:
        await ts.send(item)

    raw = b"".join(sink.items)
    mode = case["rechunk"]
    if mode == "as-sent":
        chunks = [c for c in sink.items if c]
    elif mode == "bytewise":
        chunks = [raw[i : i + 1] for i in range(len(raw))]
    elif mode == "whole":
        chunks = [raw] if raw else []
    else:
        chunks = cut(raw, [c for c in mode if 0 < c < len(raw)])

    tr = TextReceiveStream(HObj(chunks, bytearray()), encoding=enc)
    outs: list[str] = []
    viol = []
    for _ in range(len(raw) + 2):
        try:
            outs.append(await tr.receive())
        except EndOfStream:
            break
    else:
        viol.append(("roundtrip-no-eof", {}))

    expected = "".join(case["sends"])
    col.case([case], len(case["sends"]) >= 2, sample={"case": case, "outs": outs})
    col.count("text_roundtrip_cases")
    if "".join(outs) != expected:
        viol.append(
            ("roundtrip-not-identity",
             {"outs": outs, "expected": expected, "wire": [c.hex() for c in sink.items]})  # fmt: skip
        )

    for clause, detail in viol:
        col.violation("text:" + clause, detail, case)


def text_cases(tier: str, seed: int):  # noqa: ANN201
    rng = random.Random(seed * 1013 + 161)
    texts = []
    for combo in I.product([1, 2, 3, 4], repeat=2):
        texts.append("".join(CLASSES[c][0] for c in combo))

    for combo in I.product([1, 2, 3, 4], repeat=3):
        texts.append("".join(CLASSES[c][i % len(CLASSES[c])] for i, c in enumerate(combo)))

    texts += ["", "a", "\U0001f600", "﻿a", "a﻿"]
    for enc in ENCODINGS:
        for text in texts:
            t = text
            if enc == "latin-1":
                t = "".join(ch if ord(ch) < 256 else "é" for ch in text)

            if enc == "utf-8-sig" and t.startswith("﻿"):
                continue  # decode() strips a leading BOM for utf-8-sig: not an identity

            raw = t.encode(enc)
            n = len(raw)
            yield {"t": "trecv", "enc": enc, "text": t, "cuts": []}
            for a in range(1, n):
                yield {"t": "trecv", "enc": enc, "text": t, "cuts": [a]}

            pairs = list(I.combinations(range(1, n), 2))
            if len(pairs) > (400 if tier == "thorough" else 40):
                pairs = rng.sample(pairs, 400 if tier == "thorough" else 40)

            for a, b in pairs:
                yield {"t": "trecv", "enc": enc, "text": t, "cuts": [a, b]}

            yield {"t": "trecv", "enc": enc, "text": t, "cuts": list(range(1, n))}

    alphabet = "".join(CLASSES.values())
    for _ in range(30000 if tier == "thorough" else 3000):
        enc = rng.choice(ENCODINGS)
        pool = CLASSES[1] + "éß" if enc == "latin-1" else alphabet
        t = "".join(rng.choice(pool) for _ in range(rng.randrange(1, 12)))
        n = len(t.encode(enc))
        cuts = sorted(rng.sample(range(1, n), rng.randrange(0, min(n - 1, 6)))) if n > 1 else []
        yield {"t": "trecv", "enc": enc, "text": t, "cuts": cuts}

    # round trips
    for enc in ENCODINGS:
        pool = CLASSES[1] + "éß" if enc == "latin-1" else alphabet
        for _ in range(1500 if tier == "thorough" else 150):
            sends = [
                "".join(rng.choice(pool) for _ in range(rng.randrange(0 if rng.random() < 0.15 else 1, 5)))
                for _ in range(rng.randrange(1, 5))
            ]
            if enc == "utf-8-sig":
                continue  # utf-8-sig decoding drops a leading U+FEFF by definition

            total = sum(len(s.encode(enc)) for s in sends) + 4
            for mode in ("as-sent", "bytewise", "whole"):
                yield {"t": "trt", "enc": enc, "sends": sends, "rechunk": mode}

            for _ in range(3):
                k = rng.randrange(1, 5)
                yield {"t": "trt", "enc": enc, "sends": sends,
                       "rechunk": sorted(rng.sample(range(1, total + 1), min(k, total)))}  # fmt: skip


# ---------------------------------------------------------------------------------------
def all_cases(tier: str, seed: int):  # noqa: ANN201
    yield from text_cases(tier, seed)
    yield from buffered_cases(tier, seed)


async def run_case(case: dict, col) -> None:  # noqa: ANN001
    if case["t"] == "buf":
        await run_buffered(case, col)
    elif case["t"] == "bufmid":
        await run_buffered_midfeed(case, col)
    elif case["t"] == "trecv":
        await run_text_receive(case, col)
    else:
        await run_text_roundtrip(case, col)


def shards(tier: str, seed: int) -> list[dict]:
    return [{"tier": tier, "seed": seed, "shard": i, "of": NSHARDS} for i in range(NSHARDS)]


def run_shard(desc: dict, col) -> None:  # noqa: ANN001
    import anyio

    async def main() -> None:
        for i, case in enumerate(all_cases(desc["tier"], desc["seed"])):
            if i % desc["of"] == desc["shard"]:
                await guarded_async(col, case, run_case, case, col)

    anyio.run(main)


def replay(case: dict, col) -> None:  # noqa: ANN001
    import anyio

    async def main() -> None:
        await guarded_async(col, case, run_case, case, col)

    anyio.run(main)


def finish(col, tier: str) -> None:  # noqa: ANN001
    for k in ("buffered_cases", "text_receive_cases", "text_roundtrip_cases",
              "window:feed_data_during_suspended_call"):  # fmt: skip
        if not col.counters.get(k):
            col.inconclusive_because(f"no {k} executed")
