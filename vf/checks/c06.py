"""C06 -- deadlines fire exactly when due; timeout helpers report them faithfully.

Deadline-heavy programs (nests of deadline scopes and shields, sleeps of dyadic durations,
move_on_after/at, fail_after/at, deadline reassignments earlier / later / into the past / to
infinity by the task itself and by timed agents, effective-deadline probes) run on the exact
virtual clock; the shadow model with its clock listener is the discrete-event reference.
Judged (vf/tree.py): an operation interrupted by a deadline is interrupted at exactly the
instant the deadline was reached; no sleep outlives a deadline and nothing completes in a
scope whose deadline had passed at entry; the absorb decision / cancelled_caught at every
exit; TimeoutError from fail_* exactly when its own deadline interrupted the block;
current_effective_deadline() == min over the enclosing scopes up to the nearest shield, or
-inf once cancelled.  Equal-instant ties accept either coherent outcome and are counted.
uvloop is not used here (no virtual time => no exactness).
"""

from __future__ import annotations

from ..collect import guarded

import itertools

from .. import treecheck, treefam

PROPERTY = "C06"
LEVEL = "exploration"
RULE = (
    "case = generated deadline program (profile c06 of vf/treegen.py: sleeps, raw deadline "
    "scopes and move_on_*/fail_* helpers with delays from the grid {0,.5,1,1.5,2,3,4,None}, "
    "shields, deadline reassignments incl. past and infinity, effective-deadline probes, a "
    "few groups) + timed/cycle agents on {stock, eager}; plus the exhaustive family of "
    "nests of <=3 deadline scopes x shields x deadlines from a 6-point grid around 1-3 "
    "sleeps, with and without reassignment. Non-trivial = an operation was interrupted by a "
    "deadline, a fail_* helper raised TimeoutError, or a move_on_* scope moved on; distinct "
    "= distinct trace signature."
)
ASSUMPTIONS = [
    "VLoop virtual clock; all times are dyadic rationals, so float arithmetic is exact",
    "fail_* scopes are never cancelled explicitly and no deadline is reassigned after it "
    "has fired (the proviso of the statement)",
]
SHARD_TIMEOUT = {"quick": 300, "thorough": 1500}


def all_cases(tier: str, seed: int):  # noqa: ANN201
    yield from treecheck.cases("c06", tier, seed, 5000, 80000, extra=lambda: itertools.chain(treefam.deadline_nests(), treefam.deadline_histories(),
                                                                  treefam.ninf_deadlines()),
                               uvloop=False)


def shards(tier: str, seed: int) -> list[dict]:
    return treecheck.shards(tier, seed)


def run_shard(desc: dict, col) -> None:  # noqa: ANN001
    for i, case in enumerate(all_cases(desc["tier"], desc["seed"])):
        if i % desc["of"] == desc["shard"]:
            guarded(col, case, treecheck.judge, PROPERTY, case, col)


def replay(case: dict, col) -> None:  # noqa: ANN001
    guarded(col, case, treecheck.judge, PROPERTY, case, col)


def finish(col, tier: str) -> None:  # noqa: ANN001
    for k in ("nontrivial:interrupted-by-deadline", "nontrivial:timeout-raised",
              "nontrivial:moved-on", "window:effective_deadline_probed",
              "window:deadline_reassigned"):  # fmt: skip
        if not col.counters.get(k):
            col.inconclusive_because(f"deciding window never reached: {k}")
