"""C12 -- memory object streams: exactly-once, ordered, bounded delivery.

Workload and monitors live in vf/memstream.py (shared with C13); this check runs the C12
generator profile (buffer sizes 0/1/2/inf, 1-3 sender and receiver clones, blocking and
*_nowait calls, scope and native cancellation swept around the hand-over, a spare receive
handle kept open so that accounting at quiescence is exact) and reports the C12 clauses.
"""

from __future__ import annotations

from ..collect import guarded

import random

from .. import contracts, memstream

PROPERTY = "C12"
LEVEL = "exploration"
RULE = (
    "case = (loop config, buffer size 0|1|2|inf, 1-3 sender and 1-3 receiver actors each "
    "owning one clone, op lists of blocking/nowait send/receive with per-op delays, cancel "
    "agents (victim, cycle, placement, scope|native)); exhaustive cancel sweep (cycle 0..8 "
    "x placement x victim x cancel kind x buffer size x send kind) over the two hand-over "
    "base programs (blocked receivers + sender; blocked senders + receiver) plus seeded "
    "random programs. Non-trivial = a cancellation was issued to an actor blocked in "
    "send/receive; distinct = distinct trace signature."
)
ASSUMPTIONS = [
    "asyncio FIFO ready queue (never reordered)",
    "handles are closed by their user or by a third party (agents), also while blocked on",
    "pre-call observers on the public send_nowait/receive_nowait sample statistics() at "
    "the instant of the critical section (also when entered from a blocking call)",
]
SHARD_TIMEOUT = {"quick": 300, "thorough": 1500}
NSHARDS = 16
MINE = "C12"


def all_cases(tier: str, seed: int):  # noqa: ANN201
    cfgs = ["stock", "eager"]
    rcfgs = ["stock", "eager"] * 3 + ["uvloop"]  # a share of the random cases on uvloop
    yield from memstream.payload_cases()
    yield from memstream.sweep_c12(cfgs)
    yield from memstream.sweep_c12_third_party_close(cfgs)
    rng = random.Random(seed * 6151 + 12)
    for _ in range(60000 if tier == "thorough" else 6000):
        yield memstream.gen_c12(rng, rcfgs)


def judge(case: dict, col) -> None:  # noqa: ANN001
    res = memstream.execute_payload(case) if case.get("t") == "payload" else memstream.execute(case)
    col.case(res["sig"], res["nontrivial"], sample={"case": case, "trace": res["log_tail"]})
    for k, v in res["windows"].items():
        col.count("window:" + k, v)

    if res.get("skipped_deadlock"):
        col.count("skipped_legit_deadlock")

    seen = set()
    for prop, clause, detail, mech in res["viol"]:
        if prop != MINE:
            col.count("other_property_clause:" + prop + ":" + clause)
            continue

        if (clause, mech) in seen:
            continue

        seen.add((clause, mech))
        col.violation(clause, {"detail": detail, "trace": res["log_tail"]}, case, mech)


def shards(tier: str, seed: int) -> list[dict]:
    return [{"tier": tier, "seed": seed, "shard": i, "of": NSHARDS} for i in range(NSHARDS)]


def run_shard(desc: dict, col) -> None:  # noqa: ANN001
    for i, case in enumerate(all_cases(desc["tier"], desc["seed"])):
        if i % desc["of"] == desc["shard"]:
            guarded(col, case, judge, case, col)

    for k, v in contracts.EVALS.items():
        col.count("contract_evals:" + k, v)


def replay(case: dict, col) -> None:  # noqa: ANN001
    guarded(col, case, judge, case, col)


def finish(col, tier: str) -> None:  # noqa: ANN001
    need = [
        "window:cancel_blocked_receive:scope",
        "window:cancel_blocked_receive:native",
        "window:cancel_blocked_send:scope",
        "window:cancel_blocked_send:native",
        "window:cancel_receive_after_handover:native",
        "contract_evals:memstream",
    ]
    for k in need:
        if not col.counters.get(k):
            col.inconclusive_because(f"deciding monitor/window never reached: {k}")
