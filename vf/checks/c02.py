"""C02 -- task group errors: siblings cancelled, every exception surfaces exactly once.

Compositional oracle per group (vf/tree.py judge_group_exit): the non-cancellation leaves of
what the ``async with`` raised must equal, by object identity and multiplicity, the final
non-cancellation exceptions of the body and of every direct member (the in-task wrapper
records how each coroutine actually ended; a start() child's exception counts for the
caller iff start() raised that very object).  No cancellation leaf inside a raised group, no
group raised when nothing failed, only an enclosing scope's cancellation may pass through.
"""

from __future__ import annotations

from ..collect import guarded

import itertools

from .. import treecheck, treefam

PROPERTY = "C02"
LEVEL = "exploration"
RULE = (
    "case = generated task-tree / cancel-scope program (see vf/treegen.py profile c02: "
    "checkpoints, sleeps, sleep_forever, event waits, nested scopes with shields and "
    "deadlines, task groups, spawn, cancel of any scope/group/handle, shield toggles, raise, "
    "shielded cleanup, catch-cancel-then-continue, handle waits, start() children) + agents "
    "(cancel/shield/deadline/set at a cycle or virtual instant, before|after the tasks' "
    "wake-ups) on {stock, eager}. Non-trivial = >=2 failures in one group, a failure raised while the raiser was being cancelled, or a member failed with live siblings; distinct = distinct trace signature."
)
ASSUMPTIONS = [
    "asyncio FIFO ready queue (never reordered); VLoop virtual time",
    "generated code never swallows a cancellation (it re-raises, or raises from cleanup)",
    "independent shadow scope model kept in lock-step by the interpreter (vf/shadow.py); "
    "same-instant / in-flight ties accept both coherent outcomes and are counted",
]
SHARD_TIMEOUT = {"quick": 300, "thorough": 1500}


def all_cases(tier: str, seed: int):  # noqa: ANN201
    yield from treecheck.cases("c02", tier, seed, 4000, 60000, extra=lambda: itertools.chain(treefam.failure_then_shield(), treefam.shielded_group_failure(),
                                                                  treefam.start_sweep_uncancelled_caller(),
                                                                  treefam.failed_body_late_spawn(), treefam.fresh_cancellation()))


def shards(tier: str, seed: int) -> list[dict]:
    return treecheck.shards(tier, seed)


def judge(case: dict, col) -> None:  # noqa: ANN001
    # "the remaining tasks are cancelled": in the family where the only task that can be
    # left when the body fails is the late member, its not being interrupted (a C03 clause)
    # is a C02 violation as well
    also = ("C03",) if case.get("profile") == "fam:failed_body_late_spawn" else ()
    treecheck.judge(PROPERTY, case, col, also=also)


def run_shard(desc: dict, col) -> None:  # noqa: ANN001
    for i, case in enumerate(all_cases(desc["tier"], desc["seed"])):
        if i % desc["of"] == desc["shard"]:
            guarded(col, case, judge, case, col)


def replay(case: dict, col) -> None:  # noqa: ANN001
    guarded(col, case, judge, case, col)


def finish(col, tier: str) -> None:  # noqa: ANN001
    for k in ['nontrivial:multi-failure', 'nontrivial:member-failed', 'window:start_caller_cancelled_while_waiting']:
        if not col.counters.get(k):
            col.inconclusive_because(f"deciding window never reached: {k}")
