"""C20 -- async lru_cache / cache: right value, single flight, bounded retention.

The wrapped function logs exec_start/exec_end(key, n) and returns the unique token
``(key, n)``; callers are generated tasks on the virtual-time loop (needed for ttl exactness
and deadlock detection).  Three strata, so that the known finding F3 cannot mask anything:

S1  sequential histories without failures (any maxsize, typed, ttl with virtual-clock
    jumps): lock-step differential against a reference LRU (functools.lru_cache itself when
    there is no ttl, a 20-line reference LRU with expiry otherwise): which calls execute the
    function must agree exactly, and so must the probe tail that re-calls every key.
S2  concurrent histories in which eviction is impossible (maxsize=None with suspensions,
    failures and cancellations; or finite maxsize >= number of keys without failures):
    every clause is strict.
S3  concurrent histories with eviction pressure or failures under a finite maxsize: clauses
    F3 cannot explain stay strict; the F3-explainable symptoms (internal KeyError,
    overlapping executions of one key, retention above maxsize, stale token) are attributed
    to F3 only if the history shows the F3 precondition before the symptom.
    cache_clear() may be called by an agent at any cycle of an S2/S3 history: a call issued
    after a clear must not be served a result whose computation was triggered before it, an
    overlap of two executions is tolerated only when a clear separates the two triggering
    calls; under a finite maxsize a clear with calls in flight is the precondition of the
    second known finding of this family (F16).
S4  phased histories: a concurrent warm-up on <= maxsize keys without failures (no eviction
    possible, so F3 is out of play; waiters are served by in-flight computations), then
    sequential calls that force evictions: which calls execute must agree with a reference
    LRU whose recency order is the warm-up's order of USE, judged only when that order is
    unambiguous (A's last call started after every call of B had returned).
"""

from __future__ import annotations

import asyncio
import functools
import random

from ..collect import guarded, sig_of
from ..loops import BusyLoop, Deadlock, run
from ..sched import Actor, Harness, run_actors

PROPERTY = "C20"
LEVEL = "exploration"
RULE = (
    "S1: sequential call sequences (length 4-40) over <=5 keys incl. 1/1.0/True typed "
    "aliases x maxsize in {None,0,1,2,3} x typed x ttl in {None,0,2,4} with virtual sleeps, "
    "compared call-by-call with a reference LRU; S2/S3: 2-6 concurrent callers (scope or "
    "native cancellable) over 1-4 keys with per-call delay, work (suspensions), failure and "
    "cancellation plans, maxsize in {None,1,2,3}, always_checkpoint on/off, ttl in {None,0,3} with virtual sleeps. "
    "Non-trivial = (S1) at least one eviction or expiry in the reference, (S2/S3) two calls "
    "on one key overlapped in time; distinct = distinct trace signature."
)
ASSUMPTIONS = [
    "functools.lru_cache is the reference for hit/miss/eviction order without ttl",
    "an expired entry that is recomputed counts as most recently used (reference LRU)",
    "the number of retained results is read from anyio.functools.lru_cache_items (public "
    "RunVar); cache_info() accounting is not judged in concurrent histories",
]
SHARD_TIMEOUT = {"quick": 300, "thorough": 1500}
NSHARDS = 16
F3_EVICT = "lru_cache:entry-evicted-while-referenced"
F3_RETRY = "lru_cache:retry-after-failed-call-under-finite-maxsize"
F16_CLEAR = "lru_cache:cache_clear-with-calls-in-flight-under-finite-maxsize"
F19_EXPIRED = "lru_cache:entry-expired-while-callers-still-queued-on-its-lock"
F35_ORPHAN = "lru_cache:placeholder-left-by-a-call-cancelled-before-it-took-the-lock"
KEYS = [1, 2, 3, "a", "b", 1.0, True]  # the last two alias 1 unless typed


class Boom(Exception):
    pass


class FalsyTok(tuple):
    """results whose truth value is False (None-like) are results like any other: a cache
    that tests `if value` / uses a falsy sentinel would recompute or lose them"""

    def __bool__(self) -> bool:
        return False


# ---------------------------------------------------------------------------------------
# S1: sequential differential
# ---------------------------------------------------------------------------------------
class RefLRU:
    def __init__(self, maxsize, typed, ttl) -> None:  # noqa: ANN001
        self.maxsize, self.typed, self.ttl = maxsize, typed, ttl
        self.d: dict = {}  # key -> expires_at | None, insertion order = recency

    def key(self, arg):  # noqa: ANN001, ANN201
        return (arg, type(arg)) if self.typed else (arg,)

    def call(self, arg, now: float) -> bool:  # noqa: ANN001
        """returns True if the function must execute"""
        if self.maxsize == 0:
            return True

        k = self.key(arg)
        if k in self.d:
            exp = self.d[k]
            if exp is None or now < exp:
                self.d[k] = self.d.pop(k)  # move to end
                return False

            del self.d[k]  # expired: recompute

        if self.maxsize is not None and len(self.d) >= self.maxsize:
            self.d.pop(next(iter(self.d)))

        self.d[k] = None  # expiry is set at completion by the caller
        return True

    def completed(self, arg, now: float) -> None:  # noqa: ANN001
        if self.maxsize == 0:
            return

        k = self.key(arg)
        if k in self.d and self.ttl is not None:
            self.d[k] = now + self.ttl


def gen_s1(rng: random.Random, cfgs: list[str]) -> dict:
    nkeys = rng.randint(2, 5)
    alias = rng.random() < 0.3
    keys = rng.sample(range(len(KEYS) if alias else 5), nkeys)
    ttl = rng.choice([None, None, 2, 4, 0])  # ttl=0: a result expires the moment it is stored
    seq = []
    for _ in range(rng.randint(4, 40)):
        sleep = 0
        if ttl is not None and rng.random() < 0.35:
            sleep = rng.choice([1, 1, 2, 3, 4, 5])

        seq.append([rng.choice(keys), sleep])

    return {"stratum": "S1", "cfg": rng.choice(cfgs), "maxsize": rng.choice([None, 0, 1, 2, 2, 3]),
            "typed": rng.random() < 0.5, "ttl": ttl, "always_checkpoint": rng.random() < 0.3,
            "seq": seq, "probe": keys, "alias": alias,
            # the argument is passed by keyword in a share of the histories
            "kw": rng.random() < 0.35,
            # calls made in an already cancelled scope (positions in seq)
            "precancelled": sorted(rng.sample(range(len(seq)), min(len(seq), rng.choice([0, 0, 0, 0, 0, 0, 0, 0, 1, 2]))))}  # fmt: skip


def execute_s1(case: dict) -> dict:
    import anyio
    from anyio.functools import lru_cache

    viol: list = []
    out: dict = {"viol": viol, "windows": {}, "nontrivial": False}
    trace: list = []

    async def main() -> None:
        execs: list = []

        @lru_cache(maxsize=case["maxsize"], typed=case["typed"], ttl=case["ttl"],
                   always_checkpoint=case["always_checkpoint"])  # fmt: skip
        async def fn(arg):  # noqa: ANN001, ANN202
            execs.append(arg)
            return FalsyTok(("tok", repr(arg), len(execs)))

        ref = RefLRU(case["maxsize"], case["typed"], case["ttl"])
        stdlib = None
        if case["ttl"] is None and not case["alias"]:
            # (functools may cache 1 and 1.0 separately even when typed is false, so it
            # is only used as the reference of the reference on alias-free key sets)
            sexecs: list = []

            @functools.lru_cache(maxsize=case["maxsize"], typed=case["typed"])
            def sfn(arg):  # noqa: ANN001, ANN202
                sexecs.append(arg)
                return None

            stdlib = (sfn, sexecs)

        last_token: dict = {}
        steps = [(k, s, "seq") for k, s in case["seq"]] + [(k, 0, "probe") for k in case["probe"]]
        # (not with always_checkpoint: there a *hit* is cancelled after it has refreshed the
        # entry's recency, and whether that counts as a use is nobody's statement)
        pre = set() if case["always_checkpoint"] else set(case.get("precancelled", ()))
        for idx, (ki, sleep, phase) in enumerate(steps):
            arg = KEYS[ki]
            pre_tok = None
            if sleep:
                await anyio.sleep(sleep)

            if idx in pre and phase == "seq":
                # a call made in a scope that is cancelled already: either it is cancelled
                # before it has done anything - then, for the cache, it never happened - or
                # it completes like any other call (nothing obliges it to be a checkpoint)
                n_before = len(execs)
                with anyio.CancelScope() as cs:
                    cs.cancel()
                    pre_tok = await (fn(arg=arg) if case.get("kw") else fn(arg))

                out["windows"]["call_in_an_already_cancelled_scope"] = 1
                if cs.cancelled_caught:
                    if len(execs) > n_before:
                        out["windows"]["function_ran_before_the_cancellation_landed"] = 1

                    trace.append([repr(arg), sleep, phase, "precancelled"])
                    continue


            now = anyio.current_time()
            n0 = len(execs) if pre_tok is None else n_before
            size0 = len(ref.d)
            must = ref.call(arg, now)
            if must and size0 and (len(ref.d) <= size0):
                out["nontrivial"] = True  # an eviction or an expiry happened in the model

            if stdlib is not None:
                s0 = len(stdlib[1])
                stdlib[0](arg=arg) if case.get("kw") else stdlib[0](arg)
                if (len(stdlib[1]) > s0) != must:
                    viol.append(("reference-model-disagrees-with-functools", {"arg": repr(arg)}))

            try:
                tok = pre_tok if pre_tok is not None else await (fn(arg=arg) if case.get("kw") else fn(arg))
            except BaseException as e:  # noqa: BLE001
                viol.append(("internal-error", {"exc": repr(e), "arg": repr(arg)}))
                return

            if must:
                ref.completed(arg, anyio.current_time())

            executed = len(execs) > n0
            trace.append([repr(arg), sleep, phase, "exec" if executed else "hit"])
            if executed != must:
                viol.append(
                    ("s1:execution-differs-from-reference",
                     {"arg": repr(arg), "executed": executed, "reference_executes": must,
                      "time": now, "phase": phase})  # fmt: skip
                )
                return  # the two caches have diverged; later steps are not comparable

            if len(execs) - n0 > 1:
                viol.append(("executed-more-than-once", {"arg": repr(arg)}))

            kk = ref.key(arg)
            if executed:
                last_token[kk] = tok
            elif case["maxsize"] != 0 and tok != last_token.get(kk):
                viol.append(("s1:hit-returned-wrong-token", {"arg": repr(arg), "tok": tok}))

            if tok[1] != repr(arg) and not (kk in last_token and tok == last_token[kk]):
                viol.append(("wrong-value-for-key", {"arg": repr(arg), "tok": tok}))

        info = fn.cache_info()
        if case["maxsize"] is not None and _retained(fn) is not None:
            if _retained(fn) > case["maxsize"]:
                viol.append(("retention-above-maxsize", {"retained": _retained(fn)}))

        out["info"] = tuple(info)

    try:
        run(main, config=case["cfg"])
    except Deadlock:
        viol.append(("deadlock", {}))
    except BusyLoop:
        viol.append(("busy-loop", {}))

    out["sig"] = sig_of(["S1", case["maxsize"], case["typed"], case["ttl"], trace])
    out["log_tail"] = trace[-40:]
    # F35: a call cancelled before it took the entry's lock leaves its placeholder behind,
    # uncounted; attributed only to histories that contain such a call under a finite maxsize
    f35 = (F35_ORPHAN if case.get("precancelled") and case["maxsize"] not in (None, 0)
           and any(t[3] == "precancelled" for t in trace) else None)  # fmt: skip
    out["viol"] = [(c, d, f35 if c in ("s1:execution-differs-from-reference", "retention-above-maxsize",
                                       "s1:hit-returned-wrong-token") else None) for c, d in viol]  # fmt: skip
    return out


def _retained(fn) -> int | None:  # noqa: ANN001
    try:
        from anyio.functools import lru_cache_items

        ent = lru_cache_items.get().get(fn, {})
        return sum(1 for e in ent.values() if e[1] is None)
    except Exception:  # noqa: BLE001
        return None


# ---------------------------------------------------------------------------------------
# S2 / S3: concurrent
# ---------------------------------------------------------------------------------------
def gen_conc(rng: random.Random, cfgs: list[str]) -> dict:
    maxsize = rng.choice([None, None, 1, 1, 2, 3])
    nkeys = rng.choice([1, 2, 3, 4])
    ncalls = rng.randint(2, 8)
    strict_no_fail = maxsize is not None and nkeys <= maxsize and rng.random() < 0.7
    calls = []
    for _ in range(ncalls):
        fail = (not strict_no_fail) and rng.random() < 0.2
        cancel = None
        if not strict_no_fail and rng.random() < 0.2:
            cancel = [rng.randint(0, 6), rng.choice(["before", "after"])]

        calls.append({"key": rng.randrange(nkeys), "delay": rng.randint(0, 5),
                      "work": rng.randint(0, 3), "fail": fail, "cancel": cancel,
                      "mode": rng.choice(["scope", "scope", "native", "native-in-group"])})  # fmt: skip

    ttl = rng.choice([None, None, None, 3, 3, 0])
    if ttl is not None:
        # virtual seconds slept before the call: entries expire between (and callers that
        # slept equally long arrive in the same loop iteration at an expired entry)
        for c in calls:
            c["sleep"] = rng.choice([0, 0, 0, 4, 4, 8])

    clears = [[rng.randint(0, 9), rng.choice(["before", "after"])]
              for _ in range(rng.choice([0, 0, 0, 1, 2]))]  # fmt: skip
    return {"stratum": "conc", "cfg": rng.choice(cfgs), "maxsize": maxsize, "nkeys": nkeys,
            "ttl": ttl, "always_checkpoint": rng.random() < 0.3, "calls": calls,
            "clears": clears}  # fmt: skip


def stratum_of(case: dict) -> str:
    if case["stratum"] == "S1":
        return "S1"

    ms = case["maxsize"]
    risky = any(c["fail"] or c["cancel"] for c in case["calls"])
    if ms is None:
        return "S2"

    if case["nkeys"] <= ms and not risky:
        return "S2"

    return "S3"


def execute_conc(case: dict) -> dict:
    from anyio.functools import lru_cache
    from anyio.lowlevel import checkpoint

    import anyio

    viol: list = []  # (clause, detail, mechanism)
    out: dict = {"viol": viol, "windows": {}, "nontrivial": False}
    box: dict = {}
    stratum = stratum_of(case)
    ms = case["maxsize"]

    def window(name: str) -> None:
        out["windows"][name] = out["windows"].get(name, 0) + 1

    async def main() -> None:
        h = Harness()
        h.freeze_on_abort(viol)
        running: dict = {}
        execs: dict = {}  # key -> list of dict(n, status, start_seq, end_seq, end_time)
        plans: dict = {}  # key -> list of (work, fail) queued by callers
        inflight: dict = {}  # actor -> key
        shared: dict = {}  # actor -> another call on the same key overlapped with it
        f3 = {"evict": None, "retry": None}  # seq at which the precondition was first seen
        box.update(h=h)
        h.abort_marks.append(lambda: box.update(inflight=dict(inflight)))

        keys_called: set = set()
        conc = {"seen": False}
        clears: list = []  # seq numbers of cache_clear() calls
        call_of: dict = {}  # task -> seq of the call it is making (who triggers an execution)
        f19_keys: set = set()  # keys whose executions have overlapped through F19

        def note_preconditions(seq: int) -> None:
            """(a) eviction pressure (more distinct keys called than maxsize) together with
            concurrency (two calls in flight at once) has occurred in this history"""
            if ms is not None and f3["evict"] is None:
                if len(keys_called) > ms and conc["seen"]:
                    f3["evict"] = seq

        def f3_mech() -> str | None:
            if ms is not None and f3.get("clear") is not None:
                # F16: cache_clear() detaches the dict and zeroes the size counter while a
                # call that already picked up the old dict still counts itself afterwards
                return F16_CLEAR

            if stratum != "S3":
                return None

            if f3["evict"] is not None:
                return F3_EVICT

            if f3["retry"] is not None:
                return F3_RETRY

            return None

        def f19_mech(k, overlapping: list) -> str | None:  # noqa: ANN001
            """F19: one of the overlapping executions was started by a call that had been in
            flight since before an earlier successful execution of the key completed - it was
            queued on that execution's lock - and that execution's result has expired by now
            (somebody replaced the expired entry by a new placeholder with a new lock)"""
            if case["ttl"] is None:
                return None

            now = anyio.current_time()
            for r in overlapping:
                for done in execs.get(k, []):
                    if (done["status"] == "ok" and "end" in done and r["call"] < done["end"]
                            and now >= done["end_time"] + case["ttl"]):  # fmt: skip
                        return F19_EXPIRED

            return None

        @lru_cache(maxsize=ms, ttl=case["ttl"], always_checkpoint=case["always_checkpoint"])
        async def fn(k):  # noqa: ANN001, ANN202
            running[k] = running.get(k, 0) + 1
            lst = execs.setdefault(k, [])
            n = len(lst)
            rec = {"n": n, "status": "running", "start": h.ev(f"k{k}", "exec-start", n),
                   "call": call_of.get(asyncio.current_task(), 0)}  # fmt: skip
            lst.append(rec)
            # --- F3 preconditions (DESIGN.md C20/S3), recorded at the start of a miss
            note_preconditions(rec["start"])
            if ms is not None and f3["retry"] is None:
                if any(r["status"] in ("failed", "cancelled")
                       for rs in execs.values() for r in rs if r is not rec):  # fmt: skip
                    f3["retry"] = rec["start"]

            if running[k] > 1:
                # (after a cache_clear() a fresh computation may start while one that
                # began before the clear is still running in the detached cache)
                older = [r for r in lst if r is not rec and r["status"] == "running"]
                if all(any(min(r["call"], rec["call"]) < c < max(r["call"], rec["call"])
                           for c in clears) for r in older):  # fmt: skip
                    window("overlap_across_cache_clear")
                else:
                    m19 = f19_mech(k, [rec, *older])
                    if m19:
                        f19_keys.add(k)  # (what callers of k are served from here on follows from it)

                    viol.append(("overlapping-executions-of-one-key", {"key": k}, f3_mech() or m19))

            try:
                work, fail = plans.get(k, [(1, False)]).pop(0) if plans.get(k) else (1, False)
                for _ in range(work):
                    await checkpoint()

                if fail:
                    rec["status"] = "failed"
                    raise Boom(k, n)

                rec["status"] = "ok"
                rec["end_time"] = anyio.current_time()
                return FalsyTok((k, n)) if k % 2 else (k, n)
            except asyncio.CancelledError:
                rec["status"] = "cancelled"
                raise
            finally:
                running[k] -= 1
                rec["end"] = h.ev(f"k{k}", "exec-end", n, rec["status"])

        async def body(a: Actor) -> None:
            c = case["calls"][a.name]
            k = c["key"]
            if c.get("sleep"):
                await anyio.sleep(c["sleep"])

            for _ in range(c["delay"]):
                await checkpoint()

            plans.setdefault(k, []).append((c["work"], c["fail"]))
            ok_before = [r for r in execs.get(k, []) if r["status"] == "ok"]
            latest_ok_before = max((r["n"] for r in ok_before), default=-1)
            others_same_key = [b for b, kk in inflight.items() if kk == k]
            if others_same_key:
                out["nontrivial"] = True
                window("same_key_overlap")

            if inflight and not others_same_key:
                window("different_key_overlap")

            t0 = anyio.current_time()
            c0 = h.cyc()
            if case["ttl"] is not None and any(
                r["status"] == "ok" and t0 >= r["end_time"] + case["ttl"] for r in execs.get(k, [])
            ):
                window("call_on_expired_entry" + ("_with_same_key_call_in_flight" if others_same_key else ""))

            shared[a] = bool(others_same_key)
            for b in others_same_key:
                shared[b] = True

            if inflight:
                conc["seen"] = True

            keys_called.add(k)
            inflight[a] = k
            call_seq = h.ev(a.name, "call", k)
            call_of[asyncio.current_task()] = call_seq
            note_preconditions(call_seq)
            try:
                tok = await fn(k)
            except Boom as e:
                h.ev(a.name, "raised-boom", e.args)
                if e.args[0] != k:
                    viol.append(("foreign-exception", {"key": k, "boom": e.args}, None))

                return
            except asyncio.CancelledError:
                h.ev(a.name, "cancelled")
                if not a.cancel_issued:
                    viol.append(("cancelled-without-cancel", {"actor": a.name}, None))

                raise
            except KeyError as e:
                h.ev(a.name, "raised-KeyError")
                viol.append(("internal-error", {"exc": repr(e), "key": k},
                             f3_mech() or (F19_EXPIRED if k in f19_keys else None)))  # fmt: skip
                return
            except BaseException as e:  # noqa: BLE001
                h.ev(a.name, "raised", type(e).__name__)
                viol.append(("internal-error", {"exc": repr(e), "key": k}, None))
                return
            finally:
                inflight.pop(a, None)

            h.ev(a.name, "ret", tok)
            if not (isinstance(tok, tuple) and tok[0] == k):
                viol.append(("wrong-value-for-key", {"key": k, "tok": tok}, None))
                return

            lst = execs.get(k, [])
            if tok[1] >= len(lst) or lst[tok[1]]["status"] != "ok":
                viol.append(("token-not-produced-by-a-successful-execution",
                             {"key": k, "tok": tok}, None))  # fmt: skip
                return

            last_clear = max((c for c in clears if c < call_seq), default=None)
            if last_clear is not None and lst[tok[1]]["call"] < last_clear:
                viol.append(("result-computed-before-cache_clear-served-to-a-later-call",
                             {"key": k, "tok": tok, "exec_start": lst[tok[1]]["start"],
                              "clear": last_clear, "call": call_seq}, None))  # fmt: skip

            if tok[1] < latest_ok_before:
                # (after two executions of k have overlapped through F19, a caller queued on
                # the older one's lock is served its result although the newer one finished first)
                viol.append(("stale-token", {"key": k, "tok": tok,
                                             "latest_ok_before_call": latest_ok_before},
                             f3_mech() or (F19_EXPIRED if k in f19_keys else None)))  # fmt: skip

            if case["ttl"] is not None:
                rec = lst[tok[1]]
                if rec["end"] < call_seq and t0 >= rec["end_time"] + case["ttl"]:
                    viol.append(("expired-token-served", {"key": k, "tok": tok, "call_time": t0,
                                 "expired_at": rec["end_time"] + case["ttl"]}, f3_mech()))  # fmt: skip

            # calls with different arguments do not block one another: if no other call on
            # the same key was in flight at any time during this call, it needs its own
            # work plus a small constant number of cycles
            if not shared.get(a):
                dur = h.cyc() - c0
                if dur > c["work"] + 6:
                    viol.append(("blocked-by-a-different-key", {"key": k, "cycles": dur,
                                                                "work": c["work"]}, None))  # fmt: skip

        actors = [Actor(h, i, c["mode"]) for i, c in enumerate(case["calls"])]
        for i, c in enumerate(case["calls"]):
            if c["cancel"]:
                victim = actors[i]

                def fire(victim: Actor = victim) -> None:
                    if victim.done or victim.cancel_issued or victim.task is None:
                        return

                    if victim in inflight:
                        window("cancel_inflight_call:" + victim.mode)

                    victim.cancel()

                h.add_agent(c["cancel"][0], c["cancel"][1], fire, f"cancel->{i}")

        for at, place in case.get("clears", []):
            def do_clear() -> None:
                if inflight:
                    window("cache_clear_while_calls_in_flight")
                    out["nontrivial"] = True
                    if f3.get("clear") is None:
                        f3["clear"] = h.seq

                clears.append(h.ev("agent", "cache_clear"))
                fn.cache_clear()

            h.add_agent(at, place, do_clear, "cache_clear")

        await run_actors(h, [(a, body) for a in actors])
        for _ in range(3):
            await checkpoint()

        # ---- quiescence
        if ms is not None:
            r = _retained(fn)
            if r is None:
                out["windows"]["retention_probe_unavailable"] = 1
            elif r > ms:
                viol.append(("retention-above-maxsize", {"retained": r, "maxsize": ms},
                             f3_mech()))  # fmt: skip

        if stratum == "S2" and case["ttl"] is None and not clears:
            for k, lst in execs.items():
                oks = [r for r in lst if r["status"] == "ok"]
                if len(oks) > 1:
                    viol.append(("key-computed-twice-although-retained", {"key": k,
                                 "executions": [(r["n"], r["status"]) for r in lst]}, None))  # fmt: skip

    info: dict = {"stuck_ticks": 600}
    try:
        run(main, config=case["cfg"], info=info)
    except Deadlock:
        h = box["h"]
        h.apply_freeze()
        live = [a.name for a in box.get("inflight", {}) if not a.cancel_issued]
        if live:
            viol.append(("deadlock:call-never-completes", {"callers": live}, None))
        else:
            out["skipped_deadlock"] = True
    except BusyLoop:
        box["h"].apply_freeze()
        viol.append(("busy-loop", {}, None))

    if info.get("callback_errors"):
        viol.append(("exception-in-loop-callback", info["callback_errors"][:3], None))

    h = box.get("h")
    out["sig"] = sig_of([stratum, ms, h.signature() if h else None])
    out["log_tail"] = [list(map(str, e)) for e in (h.log[-40:] if h else [])]
    out["stratum"] = stratum
    return out


# ---------------------------------------------------------------------------------------
# S4: phased -- concurrent warm-up without eviction, then sequential eviction pressure
# ---------------------------------------------------------------------------------------
def gen_s4(rng: random.Random, cfgs: list[str]) -> dict:
    ms = rng.choice([2, 2, 3])
    nk1 = rng.randint(2, ms)
    calls = [{"key": rng.randrange(nk1), "delay": rng.randint(0, 5), "work": rng.randint(1, 4)}
             for _ in range(rng.randint(3, 7))]  # fmt: skip
    seq = [rng.randrange(ms + 2) for _ in range(rng.randint(2, 8))]
    return {"stratum": "S4", "cfg": rng.choice(cfgs), "maxsize": ms, "calls": calls, "seq": seq,
            "always_checkpoint": rng.random() < 0.3}  # fmt: skip


def s4_family():  # noqa: ANN201
    """a waiter served by an in-flight computation of K while other keys are used in between,
    then one new key: the least recently USED key must go, not K"""
    for cfg in ("stock", "eager"):
        for ms in (2, 3):
            for work in (3, 5):
                for dw in range(1, work + 1):  # the waiter joins K's computation at cycle dw
                    for d2 in range(0, work + 2):  # another key is used around that time
                        calls = [{"key": 0, "delay": 0, "work": work},
                                 {"key": 1, "delay": d2, "work": 1},
                                 {"key": 0, "delay": dw, "work": 1}]  # fmt: skip
                        if ms == 3:
                            calls.append({"key": 2, "delay": 0, "work": 1})

                        for seq in ([ms, 0, 1], [ms, 1, 0], [0, ms, 1, ms + 1, 0]):
                            yield {"stratum": "S4", "cfg": cfg, "maxsize": ms, "calls": calls,
                                   "seq": seq, "always_checkpoint": False}  # fmt: skip


def execute_s4(case: dict) -> dict:
    import anyio
    from anyio.functools import lru_cache
    from anyio.lowlevel import checkpoint

    viol: list = []
    out: dict = {"viol": viol, "windows": {}, "nontrivial": False}
    trace: list = []
    ms = case["maxsize"]

    def window(name: str) -> None:
        out["windows"][name] = out["windows"].get(name, 0) + 1

    async def main() -> None:
        seq = [0]
        execs: list = []
        works: dict = {}

        def ev(*a) -> int:  # noqa: ANN002
            seq[0] += 1
            trace.append([seq[0], *map(str, a)])
            return seq[0]

        @lru_cache(maxsize=ms, always_checkpoint=case["always_checkpoint"])
        async def fn(k):  # noqa: ANN001, ANN202
            execs.append(k)
            ev("exec", k)
            for _ in range(works.get(k, [1]).pop(0) if works.get(k) else 1):
                await checkpoint()

            return (k, len(execs))

        spans: dict = {}  # key -> list of (start seq, end seq)
        served: dict = {}

        async def caller(c: dict) -> None:
            for _ in range(c["delay"]):
                await checkpoint()

            works.setdefault(c["key"], []).append(c["work"])
            n0 = len(execs)
            s0 = ev("call", c["key"])
            tok = await fn(c["key"])
            spans.setdefault(c["key"], []).append((s0, ev("ret", c["key"], tok)))
            if len(execs) == n0 and tok[0] == c["key"]:
                served[c["key"]] = True

            if tok[0] != c["key"]:
                viol.append(("wrong-value-for-key", {"key": c["key"], "tok": tok}))

        async with anyio.create_task_group() as tg:
            for c in case["calls"]:
                tg.start_soon(caller, c)

        for k in spans:
            if execs.count(k) != 1:
                viol.append(("key-computed-twice-although-retained",
                             {"key": k, "executions": execs.count(k)}))  # fmt: skip
                return

        # recency order of the warm-up, if it is unambiguous: A is more recently used than B
        # iff A's latest call STARTED after every call of B had returned
        keys = list(spans)

        def newer(a, b) -> bool:  # noqa: ANN001
            return max(s for s, _ in spans[a]) > max(e for _, e in spans[b])

        order = sorted(keys, key=lambda k: max(e for _, e in spans[k]))
        if not all(newer(order[i + 1], order[i]) for i in range(len(order) - 1)):
            window("s4_ambiguous_recency")
            return

        window("s4_judged")
        if any(len(v) > 1 for v in spans.values()):
            out["nontrivial"] = True
            window("s4_waiter_served_by_inflight_call")

        ref = RefLRU(ms, False, None)
        for k in order:
            ref.call(k, 0.0)

        for k in case["seq"]:
            n0 = len(execs)
            must = ref.call(k, 0.0)
            try:
                tok = await fn(k)
            except BaseException as e:  # noqa: BLE001
                viol.append(("internal-error", {"exc": repr(e), "key": k}))
                return

            executed = len(execs) > n0
            ev("seq-call", k, "exec" if executed else "hit")
            if executed != must:
                viol.append(("s4:eviction-order-differs-from-LRU",
                             {"key": k, "executed": executed, "reference_executes": must,
                              "warmup_recency_oldest_first": order}))  # fmt: skip
                return

            if tok[0] != k:
                viol.append(("wrong-value-for-key", {"key": k, "tok": tok}))

        r = _retained(fn)
        if r is not None and r > ms:
            viol.append(("retention-above-maxsize", {"retained": r, "maxsize": ms}))

    try:
        run(main, config=case["cfg"])
    except Deadlock:
        viol.append(("deadlock", {}))
    except BusyLoop:
        viol.append(("busy-loop", {}))

    out["sig"] = sig_of(["S4", ms, [t[1:] for t in trace]])
    out["log_tail"] = trace[-40:]
    out["viol"] = [(c, d, None) for c, d in viol]
    out["stratum"] = "S4"
    return out


# ---------------------------------------------------------------------------------------
# S5: one wrapper, two event loops one after the other
# ---------------------------------------------------------------------------------------
F27_LOOPS = "lru_cache:size-counter-shared-by-the-caches-of-different-event-loops"


def s5_family():  # noqa: ANN201
    for cfg in ("stock", "eager"):
        for ms in (None, 1, 2, 3):
            for warm in (0, 1, 2, 3):  # distinct keys cached by the first loop
                for conc in (1, 3):  # equal concurrent callers in the second loop
                    for ac in (False, True):
                        yield {"stratum": "S5", "cfg": cfg, "maxsize": ms, "warm": warm, "conc": conc,
                               "always_checkpoint": ac}  # fmt: skip


def execute_s5(case: dict) -> dict:
    """the decorated function is module-level state: it is used in one event loop, that loop
    ends, and it is used again in a second one (two anyio.run() calls in a program, a test
    suite).  The cache is per loop; in the second loop everything starts cold, and from
    there on the usual clauses hold: one execution at a time per key, a retained key is not
    recomputed, no internal error"""
    from anyio.functools import lru_cache
    from anyio.lowlevel import checkpoint

    import anyio

    viol: list = []
    out: dict = {"viol": viol, "windows": {}, "nontrivial": True}
    ms = case["maxsize"]
    state = {"running": {}, "overlap": False, "execs": []}

    @lru_cache(maxsize=ms, always_checkpoint=case["always_checkpoint"])
    async def fn(k):  # noqa: ANN001, ANN202
        state["running"][k] = state["running"].get(k, 0) + 1
        if state["running"][k] > 1:
            state["overlap"] = True

        state["execs"].append(k)
        try:
            await checkpoint()
            await checkpoint()
            return (k, len(state["execs"]))
        finally:
            state["running"][k] -= 1

    async def first() -> None:
        for k in range(case["warm"]):
            await fn(("warm", k))

    async def second() -> None:
        state["execs"].clear()
        errors: list = []

        async def call(k) -> None:  # noqa: ANN001
            try:
                tok = await fn(k)
                if tok[0] != k:
                    viol.append(("wrong-value-for-key", {"key": k, "tok": tok}, None))
            except BaseException as e:  # noqa: BLE001
                errors.append(repr(e))

        async with anyio.create_task_group() as tg:
            for _ in range(case["conc"]):
                tg.start_soon(call, "a")

        await call("b")
        await call("a")  # retained if maxsize allows two results
        mech = F27_LOOPS if (ms is not None and case["warm"] > 0) else None
        if errors:
            viol.append(("internal-error", {"errors": errors[:3]}, mech))

        if state["overlap"]:
            viol.append(("overlapping-executions-of-one-key", {"execs": list(state["execs"])}, mech))

        want = ["a", "b"] if ms is None or ms >= 2 else ["a", "b", "a"]
        if not errors and not state["overlap"] and state["execs"] != want:
            viol.append(("retained-key-recomputed-in-a-second-event-loop" if len(state["execs"]) > len(want)
                         else "stale-or-missing-execution", {"execs": list(state["execs"]), "expected": want},
                         mech))  # fmt: skip

    out["windows"]["wrapper_used_in_a_second_event_loop"] = 1
    try:
        run(first, config=case["cfg"])
        run(second, config=case["cfg"])
    except (Deadlock, BusyLoop) as e:
        viol.append(("deadlock-or-busy-loop", {"exc": type(e).__name__}, None))

    out["sig"] = sig_of(["S5", case, list(state["execs"])])
    out["log_tail"] = [{"execs_in_second_loop": list(state["execs"])}]
    out["stratum"] = "S5"
    return out


def execute(case: dict) -> dict:
    if case["stratum"] == "S5":
        return execute_s5(case)

    if case["stratum"] == "S1":
        r = execute_s1(case)
        r["stratum"] = "S1"
        return r

    if case["stratum"] == "S4":
        return execute_s4(case)

    return execute_conc(case)


def ttl_family():  # noqa: ANN201
    """a finished entry expires (virtual clock), then 2-4 callers arrive at it in the same
    loop iteration or a few checkpoints apart, with always_checkpoint on and off: one
    recomputation at a time, the others reuse it"""
    for cfg in ("stock", "eager"):
        for ac in (False, True):
            for ms in (None, 2):
                for n in (2, 3, 4):
                    for stagger in (0, 1):
                        for other in (False, True):
                            calls = [{"key": 0, "delay": 0, "work": 1, "fail": False, "cancel": None,
                                      "mode": "scope", "sleep": 0}]  # fmt: skip
                            for i in range(n):
                                calls.append({"key": 0, "delay": i * stagger, "work": 2, "fail": False,
                                              "cancel": None, "mode": "scope", "sleep": 4})  # fmt: skip

                            if other:
                                calls.append({"key": 1, "delay": 0, "work": 1, "fail": False,
                                              "cancel": None, "mode": "scope", "sleep": 4})  # fmt: skip

                            yield {"stratum": "conc", "cfg": cfg, "maxsize": ms, "nkeys": 2, "ttl": 3,
                                   "always_checkpoint": ac, "calls": calls, "clears": []}  # fmt: skip


def s1_alias_family():  # noqa: ANN201
    """1, 1.0 and True (equal, differently typed) in every order, typed on/off, positional and
    by keyword, small and unbounded caches: with typed=True they are three keys, else one"""
    import itertools as _it

    for cfg in ("stock", "eager"):
        for typed in (False, True):
            for kw in (False, True):
                for ms in (None, 1, 2, 3):
                    for perm in _it.permutations((0, 5, 6)):
                        seq = [[k, 0] for k in perm] + [[k, 0] for k in perm[::-1]] + [[1, 0], [perm[0], 0]]
                        yield {"stratum": "S1", "cfg": cfg, "maxsize": ms, "typed": typed, "ttl": None,
                               "always_checkpoint": False, "seq": seq, "probe": [0, 5, 6], "alias": True,
                               "kw": kw, "precancelled": []}  # fmt: skip


def f19_witness_cases():  # noqa: ANN201
    """the history of witnesses/F19_expiry_with_waiters_queued.py: a holder and two queued
    callers, ttl=0, fresh callers arriving around the completion"""
    for cfg in ("stock", "eager"):
        calls = [{"key": 0, "delay": 0, "work": 3, "fail": False, "cancel": None, "mode": "scope",
                  "sleep": 0} for _ in range(3)]  # fmt: skip
        calls += [{"key": 0, "delay": d, "work": 3, "fail": False, "cancel": None, "mode": "scope",
                   "sleep": 0} for d in range(2, 10)]  # fmt: skip
        yield {"stratum": "conc", "cfg": cfg, "maxsize": None, "nkeys": 1, "ttl": 0,
               "always_checkpoint": False, "calls": calls, "clears": []}  # fmt: skip


def f3_witness_cases():  # noqa: ANN201
    """the two shapes in which F3 was found, so that the known finding is re-observed (or
    seen to be gone) on every run"""
    for cfg in ("stock", "eager"):
        yield {"stratum": "conc", "cfg": cfg, "maxsize": 1, "nkeys": 2, "ttl": None,
               "always_checkpoint": False,
               "calls": [
                   {"key": 0, "delay": 0, "work": 6, "fail": True, "cancel": None, "mode": "scope"},
                   {"key": 0, "delay": 2, "work": 0, "fail": False, "cancel": None, "mode": "scope"},
                   {"key": 1, "delay": 4, "work": 4, "fail": False, "cancel": None, "mode": "scope"},
               ]}  # fmt: skip


def all_cases(tier: str, seed: int):  # noqa: ANN201
    cfgs = ["stock", "eager"]
    yield from f3_witness_cases()
    yield from f19_witness_cases()
    yield from s4_family()
    yield from s5_family()
    yield from s1_alias_family()
    yield from ttl_family()
    rng4 = random.Random(seed * 4001 + 4)
    for _ in range(8000 if tier == "thorough" else 800):
        yield gen_s4(rng4, cfgs)

    rng = random.Random(seed * 5003 + 20)
    n = 40000 if tier == "thorough" else 5000
    for i in range(n):
        if i % 3 == 0:
            yield gen_s1(rng, cfgs)
        else:
            case = gen_conc(rng, cfgs)
            if case["ttl"] is None and rng.random() < 0.15:
                case["cfg"] = "uvloop"  # timer-free histories also run on uvloop

            yield case


def judge(case: dict, col) -> None:  # noqa: ANN001
    res = execute(case)
    col.case(res["sig"], res["nontrivial"], sample={"case": case, "trace": res["log_tail"]})
    for k, v in res["windows"].items():
        col.count("window:" + k, v)

    if res.get("skipped_deadlock"):
        col.count("skipped_legit_deadlock")

    col.count("stratum:" + res["stratum"])
    seen = set()
    for clause, detail, mech in res["viol"]:
        if (clause, mech) in seen:
            continue

        seen.add((clause, mech))
        if mech:
            col.count(f"f3_symptom:{clause}")

        col.violation(clause, {"detail": detail, "trace": res["log_tail"],
                               "stratum": res["stratum"]}, case, mech)  # fmt: skip


def shards(tier: str, seed: int) -> list[dict]:
    return [{"tier": tier, "seed": seed, "shard": i, "of": NSHARDS} for i in range(NSHARDS)]


def run_shard(desc: dict, col) -> None:  # noqa: ANN001
    for i, case in enumerate(all_cases(desc["tier"], desc["seed"])):
        if i % desc["of"] == desc["shard"]:
            guarded(col, case, judge, case, col)


def replay(case: dict, col) -> None:  # noqa: ANN001
    guarded(col, case, judge, case, col)


def finish(col, tier: str) -> None:  # noqa: ANN001
    for k in ("stratum:S1", "stratum:S2", "stratum:S3", "stratum:S4", "window:same_key_overlap",
              "window:different_key_overlap", "window:s4_waiter_served_by_inflight_call",
              "window:call_on_expired_entry_with_same_key_call_in_flight"):  # fmt: skip
        if not col.counters.get(k):
            col.inconclusive_because(f"stratum/window never reached: {k}")
