"""C19 -- anyio.itertools / anyio.functools.reduce agree with the standard library.

Differential monitor: every case (function, element sequence, parameters, source kind) is
executed against the real anyio implementation inside a running event loop and against the
stdlib namesake with the equivalent synchronous callback; the oracle compares the list of
results (first LIMIT for infinite iterators) and the class of the error.  tee() is judged
by a history oracle: each consumer's observed sequence must equal the source sequence
under every interleaving, and the counting source must have been pulled exactly once per
element.
"""

from __future__ import annotations

from ..collect import guarded_async

import functools as F
import itertools as I
import operator
import random
from typing import Any

PROPERTY = "C19"
LEVEL = "exploration"
RULE = (
    "cases = (function, element sequence, integer parameters, sync|async source); "
    "exhaustive over sequences of length<=4 over {0,1} and <=3 over {0,1,2} x parameters in "
    "{None,-1,0,1,2,3} per slot, plus seeded random longer sequences; tee: every "
    "interleaving of <=3 sequential consumers over sources of length<=3 plus seeded "
    "concurrent consumers with suspending sources. A case is non-trivial when the "
    "reference result is non-empty or an error; distinct = distinct (function, "
    "arguments, source kind, reference outcome)."
)
ASSUMPTIONS = [
    "CPython 3.12 itertools/functools are the reference semantics",
    "batched(strict=True) is compared with a 6-line reference (stdlib has it from 3.13)",
    "error agreement is judged on the exception class name, wherever (construction or "
    "first iteration) it is raised",
]
SHARD_TIMEOUT = {"quick": 300, "thorough": 1500}
LIMIT = 12
INTS = [None, -1, 0, 1, 2, 3]


# ---------------------------------------------------------------------------------------
# helpers
# ---------------------------------------------------------------------------------------
async def _agen(xs):  # noqa: ANN001, ANN202
    for x in xs:
        yield x


class _ReIter:
    """an async ITERABLE (not an iterator): every __aiter__() call starts over, like a list
    does for iter() - code that opens the source twice sees the first elements twice"""

    def __init__(self, xs) -> None:  # noqa: ANN001
        self.xs = list(xs)
        self.opened = 0

    def __aiter__(self):  # noqa: ANN204
        self.opened += 1
        return _agen(self.xs)


class _SyncOnce:
    """a sync iterable that can be iterated only once (a generator-like source)"""

    def __init__(self, xs) -> None:  # noqa: ANN001
        self.it = iter(list(xs))

    def __iter__(self):  # noqa: ANN204
        return self.it


def _src(kind: str, xs):  # noqa: ANN001, ANN202
    if kind == "sync":
        return list(xs)

    if kind == "areiter":
        return _ReIter(xs)

    if kind == "sync-once":
        return _SyncOnce(xs)

    return _agen(list(xs))


def _lift(f):  # noqa: ANN001, ANN202
    async def g(*a):  # noqa: ANN002, ANN202
        return f(*a)

    return g


def _ref_batched(xs, n, strict):  # noqa: ANN001, ANN202
    if n < 1:
        raise ValueError("n must be at least one")

    it = iter(xs)
    while batch := tuple(I.islice(it, n)):
        if strict and len(batch) != n:
            raise ValueError("batched(): incomplete batch")

        yield batch


PREDS = {
    "bool": bool,
    "lt1": lambda v: v < 1,
    "odd": lambda v: v % 2 == 1,
    "true": lambda v: True,
    "false": lambda v: False,
}
KEYS = {
    "none": None,
    "half": lambda v: v // 2,
    "const": lambda v: 0,
    "neg": lambda v: -v,
    # equal-but-not-identical keys: comparing keys by identity must show
    "fresh_tuple": lambda v: (v // 2, "k"),
    "fresh_str": lambda v: "k%d" % (v // 2),
}
BINOPS = {"add": operator.add, "mul": operator.mul, "sub": operator.sub, "max": max}


def makers(case: dict):  # noqa: ANN201
    """Return (anyio_maker(kind) -> async iterable, stdlib_maker() -> iterable)."""
    from anyio import itertools as AI

    fn = case["fn"]
    xs = case.get("xs", [])
    p = case.get("p", [])
    if fn == "accumulate":
        op, initial = p
        if op is None:
            return (
                lambda k: AI.accumulate(_src(k, xs), initial=initial),
                lambda: I.accumulate(xs, initial=initial),
            )

        return (
            lambda k: AI.accumulate(_src(k, xs), _lift(BINOPS[op]), initial=initial),
            lambda: I.accumulate(xs, BINOPS[op], initial=initial),
        )

    if fn == "batched":
        n, strict = p
        if strict:
            return (
                lambda k: AI.batched(_src(k, xs), n, strict=True),
                lambda: _ref_batched(xs, n, True),
            )

        return (lambda k: AI.batched(_src(k, xs), n), lambda: I.batched(xs, n))

    if fn == "chain":
        ys = p[0]
        return (
            lambda k: AI.chain(_src(k, xs), _src(k, ys), _src("sync", xs)),
            lambda: I.chain(xs, ys, xs),
        )

    if fn == "chain0":
        return (lambda k: AI.chain(), lambda: I.chain())

    if fn == "chain_from_iterable":
        parts = p[0]
        return (
            lambda k: AI.chain.from_iterable(_src(k, [_src(k, q) for q in parts])),
            lambda: I.chain.from_iterable(parts),
        )

    if fn in ("combinations", "combinations_with_replacement"):
        (r,) = p
        return (
            lambda k: getattr(AI, fn)(_src(k, xs), r),
            lambda: getattr(I, fn)(xs, r),
        )

    if fn == "permutations":
        (r,) = p
        if r == "default":
            return (lambda k: AI.permutations(_src(k, xs)), lambda: I.permutations(xs))

        return (lambda k: AI.permutations(_src(k, xs), r), lambda: I.permutations(xs, r))

    if fn == "product":
        ys, repeat = p
        if ys is None:
            return (
                lambda k: AI.product(_src(k, xs), repeat=repeat),
                lambda: I.product(xs, repeat=repeat),
            )

        return (
            lambda k: AI.product(_src(k, xs), _src(k, ys), repeat=repeat),
            lambda: I.product(xs, ys, repeat=repeat),
        )

    if fn == "product0":
        (repeat,) = p
        return (lambda k: AI.product(repeat=repeat), lambda: I.product(repeat=repeat))

    if fn == "compress":
        (sel,) = p
        return (
            lambda k: AI.compress(_src(k, xs), _src(k, sel)),
            lambda: I.compress(xs, sel),
        )

    if fn == "count":
        st, sp = p
        return (lambda k: AI.count(st, sp), lambda: I.count(st, sp))

    if fn == "cycle":
        return (lambda k: AI.cycle(_src(k, xs)), lambda: I.cycle(xs))

    if fn in ("dropwhile", "takewhile", "filterfalse"):
        pred = PREDS[p[0]]
        return (
            lambda k: getattr(AI, fn)(_lift(pred), _src(k, xs)),
            lambda: getattr(I, fn)(pred, xs),
        )

    if fn == "groupby":
        key = KEYS[p[0]]
        if len(p) > 1 and p[1] == "fresh":
            # elements equal by value but distinct objects (ints beyond the small-int cache)
            xs = [10**6 + x * 7 for x in xs]
        elif len(p) > 1 and p[1] == "nan":
            # an element that is identical to itself but not equal to itself: the standard
            # library compares keys by identity first
            xs = [NAN if x == 1 else x for x in xs]

        if key is None:
            return (
                lambda k: AI.groupby(_src(k, xs)),
                lambda: ((kk, list(g)) for kk, g in I.groupby(xs)),
            )

        return (
            lambda k: AI.groupby(_src(k, xs), _lift(key)),
            lambda: ((kk, list(g)) for kk, g in I.groupby(xs, key)),
        )

    if fn == "islice":
        return (lambda k: AI.islice(_src(k, xs), *p), lambda: I.islice(xs, *p))

    if fn == "pairwise":
        return (lambda k: AI.pairwise(_src(k, xs)), lambda: I.pairwise(xs))

    if fn == "starmap":
        op = BINOPS[p[0]]
        rows = [(x, i + 1) for i, x in enumerate(xs)]
        return (
            lambda k: AI.starmap(_lift(op), _src(k, [_src(k, r) for r in rows])),
            lambda: I.starmap(op, rows),
        )

    if fn == "zip_longest":
        ys, zs = p
        if zs is None:
            return (
                lambda k: AI.zip_longest(_src(k, xs), _src(k, ys), fillvalue="f"),
                lambda: I.zip_longest(xs, ys, fillvalue="f"),
            )

        return (
            lambda k: AI.zip_longest(_src(k, xs), _src(k, ys), _src("sync", zs)),
            lambda: I.zip_longest(xs, ys, zs),
        )

    if fn == "zip_longest0":
        return (lambda k: AI.zip_longest(), lambda: I.zip_longest())

    if fn == "repeat":
        (times,) = p
        if times is None:
            return (lambda k: AI.repeat("e"), lambda: I.repeat("e"))

        return (lambda k: AI.repeat("e", times), lambda: I.repeat("e", times))

    raise KeyError(fn)


def _norm(v: Any) -> Any:
    if isinstance(v, tuple):
        return [_norm(x) for x in v]

    if isinstance(v, list):
        return [_norm(x) for x in v]

    return v


async def _collect_async(mk, kind):  # noqa: ANN001, ANN202
    out: list = []
    try:
        ait = mk(kind)
        async for x in ait:
            out.append(_norm(x))
            if len(out) >= LIMIT:
                break
    except Exception as e:  # noqa: BLE001
        return out, type(e).__name__

    return out, None


def _collect_sync(mk):  # noqa: ANN001, ANN202
    out: list = []
    try:
        for x in mk():
            out.append(_norm(x))
            if len(out) >= LIMIT:
                break
    except Exception as e:  # noqa: BLE001
        return out, type(e).__name__

    return out, None


# ---------------------------------------------------------------------------------------
# Pass-through functions never look inside their elements, so they must treat None / 0 / "" /
# False like any other value (sentinel or truthiness confusion inside the implementation
# shows only with such elements -- seeded change C19-b).  An "odd" case is the same case with
# every element x replaced by ODD[x % 4]; callbacks that compute on elements are excluded.
NAN = float("nan")
ODD = [None, 0, "", False]
ODD_FNS = {"batched", "chain", "chain_from_iterable", "combinations", "combinations_with_replacement",
           "permutations", "product", "compress", "cycle", "islice", "pairwise", "zip_longest",
           "tee_seq", "tee_conc"}  # fmt: skip


def oddify(case: dict) -> dict | None:
    fn = case["fn"]
    if fn not in ODD_FNS:
        return None

    def m(xs):  # noqa: ANN001, ANN202
        return [ODD[x % 4] for x in xs]

    c = dict(case, odd=True, xs=m(case.get("xs", [])))
    p = list(case.get("p", []))
    if fn in ("chain", "zip_longest"):
        p = [m(q) if isinstance(q, list) else q for q in p]
    elif fn == "product" and isinstance(p[0], list):
        p = [m(p[0]), p[1]]
    elif fn == "chain_from_iterable":
        p = [[m(q) for q in p[0]]]

    c["p"] = p
    return c


# case enumeration
# ---------------------------------------------------------------------------------------
def base_sequences() -> list[list[int]]:
    seqs: list[list[int]] = [[]]
    for n in range(1, 5):
        seqs += [list(t) for t in I.product(range(2), repeat=n)]

    for n in range(1, 4):
        seqs += [list(t) for t in I.product(range(3), repeat=n) if 2 in t]

    return seqs


def enumerate_cases(seqs: list[list[int]], short: list[list[int]], full: bool):  # noqa: ANN201
    ks = [-1, 0, 1, 2, 3]
    for xs in seqs:
        for op in (None, "mul", "sub", "max"):
            for init in (None, 0, 3):
                yield {"fn": "accumulate", "xs": xs, "p": [op, init]}

        for k in ks + [5]:
            yield {"fn": "batched", "xs": xs, "p": [k, False]}
            yield {"fn": "batched", "xs": xs, "p": [k, True]}

        for k in ks:
            yield {"fn": "combinations", "xs": xs, "p": [k]}
            yield {"fn": "combinations_with_replacement", "xs": xs, "p": [k]}
            yield {"fn": "permutations", "xs": xs, "p": [k]}
            yield {"fn": "product", "xs": xs, "p": [None, k]}

        yield {"fn": "permutations", "xs": xs, "p": ["default"]}
        yield {"fn": "permutations", "xs": xs, "p": [None]}
        yield {"fn": "cycle", "xs": xs, "p": []}
        yield {"fn": "pairwise", "xs": xs, "p": []}
        for pr in PREDS:
            for fn in ("dropwhile", "takewhile", "filterfalse"):
                yield {"fn": fn, "xs": xs, "p": [pr]}

        for key in KEYS:
            yield {"fn": "groupby", "xs": xs, "p": [key]}

        yield {"fn": "groupby", "xs": xs, "p": ["none", "fresh"]}
        yield {"fn": "groupby", "xs": xs, "p": ["none", "nan"]}

        for op in ("sub", "add"):
            yield {"fn": "starmap", "xs": xs, "p": [op]}

        for ys in short:
            yield {"fn": "chain", "xs": xs, "p": [ys]}
            yield {"fn": "compress", "xs": xs, "p": [ys]}
            yield {"fn": "zip_longest", "xs": xs, "p": [ys, None]}
            yield {"fn": "product", "xs": xs, "p": [ys, 1]}
            yield {"fn": "chain_from_iterable", "xs": [], "p": [[xs, ys, []]]}

        for ys in short[:4]:
            for zs in short[:4]:
                yield {"fn": "zip_longest", "xs": xs, "p": [ys, zs]}

            yield {"fn": "product", "xs": xs, "p": [ys, 2]}
            yield {"fn": "product", "xs": xs, "p": [ys, 0]}

        for a in INTS:
            yield {"fn": "islice", "xs": xs, "p": [a]}
            for b in INTS:
                yield {"fn": "islice", "xs": xs, "p": [a, b]}
                if full or len(xs) <= 3:
                    for c in INTS:
                        yield {"fn": "islice", "xs": xs, "p": [a, b, c]}

        for init in ("noinit", 5):
            for op in ("sub", "add"):
                yield {"fn": "reduce", "xs": xs, "p": [op, init]}


def fixed_cases():  # noqa: ANN201
    for k in [None, -1, 0, 1, 2, 3, 20]:
        yield {"fn": "repeat", "xs": [], "p": [k]}
        if k is not None:
            yield {"fn": "product0", "xs": [], "p": [k]}

    for st, sp in ((0, 1), (3, 2), (1, -1), (2, 0), (-5, 3)):
        yield {"fn": "count", "xs": [], "p": [st, sp]}

    yield {"fn": "chain0", "xs": [], "p": []}
    yield {"fn": "zip_longest0", "xs": [], "p": []}
    yield {"fn": "islice", "xs": [1, 2], "p": []}
    yield {"fn": "islice", "xs": [1, 2], "p": [1, 2, 1, 1]}


def random_cases(rng: random.Random, n: int):  # noqa: ANN201
    for _ in range(n):
        xs = [rng.randrange(4) for _ in range(rng.randrange(5, 14))]
        ys = [rng.randrange(3) for _ in range(rng.randrange(0, 9))]
        big = [None, 0, 1, 2, 3, 4, 5, 7, 9, 12, 20, -2]
        sub = list(
            I.islice(
                enumerate_cases([xs], [ys], False),
                0,
                None,
                rng.randrange(1, 4),
            )
        )
        for c in rng.sample(sub, min(len(sub), 30)):
            if c["fn"] in ("permutations", "combinations", "product",
                           "combinations_with_replacement"):  # fmt: skip
                continue  # explosive pools; the LIMIT makes them uninformative anyway

            yield c

        for _ in range(12):
            yield {"fn": "islice", "xs": xs,
                   "p": [rng.choice(big) for _ in range(rng.randrange(1, 4))]}  # fmt: skip

        yield {"fn": "batched", "xs": xs, "p": [rng.randrange(1, 6), rng.random() < 0.5]}


# ---------------------------------------------------------------------------------------
# execution
# ---------------------------------------------------------------------------------------
async def run_case(case: dict, col) -> None:  # noqa: ANN001
    from anyio.functools import reduce as areduce

    if case["fn"] == "tee_seq":
        await run_tee_seq(case, col)
        return

    if case["fn"] == "tee_conc":
        await run_tee_conc(case, col)
        return

    for kind in ("sync", "async", "areiter", "sync-once"):
        if case["fn"] == "reduce":
            op, init = case["p"]
            xs = case["xs"]
            try:
                if init == "noinit":
                    a = ([await areduce(_lift(BINOPS[op]), _src(kind, xs))], None)
                else:
                    a = ([await areduce(_lift(BINOPS[op]), _src(kind, xs), init)], None)
            except Exception as e:  # noqa: BLE001
                a = ([], type(e).__name__)

            try:
                if init == "noinit":
                    s = ([F.reduce(BINOPS[op], xs)], None)
                else:
                    s = ([F.reduce(BINOPS[op], xs, init)], None)
            except Exception as e:  # noqa: BLE001
                s = ([], type(e).__name__)
        else:
            amk, smk = makers(case)
            a = await _collect_async(amk, kind)
            s = _collect_sync(smk)

        nontrivial = bool(s[0]) or s[1] is not None
        col.case([case, kind, s], nontrivial, sample={"case": case, "source": kind,
                                                      "stdlib": s, "anyio": a})  # fmt: skip
        col.count("compared:" + case["fn"])
        if s[1] is not None:
            col.count("error_class_compared")

        if a != s:
            col.violation(
                "result-differs-from-stdlib",
                {"source": kind, "anyio": a, "stdlib": s},
                case,
            )


async def run_tee_seq(case: dict, col) -> None:  # noqa: ANN001
    """All consumers driven by one task in the order given by case['order']."""
    from anyio import itertools as AI

    xs, n, order, kind = case["xs"], case["n"], case["order"], case["kind"]
    pulls: list = []

    def sync_source():  # noqa: ANN202
        for x in xs:
            pulls.append(x)
            yield x

    async def async_source():  # noqa: ANN202
        for x in xs:
            pulls.append(x)
            yield x

    src = sync_source() if kind == "sync" else async_source()
    try:
        its = AI.tee(src, n)
    except Exception as e:  # noqa: BLE001
        try:
            I.tee(xs, n)
        except Exception as e2:  # noqa: BLE001
            ok = type(e2) is type(e)
        else:
            ok = False

        col.case([case, "err"], True)
        if not ok:
            col.violation("tee-error-differs", repr(e), case)

        return

    seen: list[list] = [[] for _ in its]
    done = [False] * len(its)
    for who in order:
        if who >= len(its) or done[who]:
            continue

        try:
            seen[who].append(await anext(its[who]))
        except StopAsyncIteration:
            done[who] = True

    # drain the rest
    for i, it in enumerate(its):
        if not done[i]:
            async for v in it:
                seen[i].append(v)

    col.case([case], bool(xs) and n >= 2, sample={"case": case, "seen": seen})
    col.count("compared:tee")
    for i, s in enumerate(seen):
        if s != list(xs):
            col.violation("tee-consumer-incomplete", {"consumer": i, "seen": s}, case)

    if n > 0 and pulls != list(xs):
        col.violation("tee-source-not-consumed-once", {"pulls": pulls}, case)


async def run_tee_conc(case: dict, col) -> None:  # noqa: ANN001
    """Concurrent consumers (tasks) over a source that suspends between elements."""
    from anyio import create_task_group
    from anyio import itertools as AI
    from anyio.lowlevel import checkpoint

    xs, n = case["xs"], case["n"]
    src_delays, cons_delays = case["src_delays"], case["cons_delays"]
    pulls: list = []
    active = [0]
    overlap = [0]

    async def source():  # noqa: ANN202
        for i, x in enumerate(xs):
            active[0] += 1
            if active[0] > 1:
                overlap[0] += 1

            for _ in range(src_delays[i % len(src_delays)]):
                await checkpoint()

            pulls.append(x)
            active[0] -= 1
            yield x

    class Src:
        """async iterator whose __anext__ may be entered concurrently if unlocked"""

        def __init__(self) -> None:
            self.i = 0

        def __aiter__(self):  # noqa: ANN204
            return self

        async def __anext__(self):  # noqa: ANN204
            i = self.i
            active[0] += 1
            if active[0] > 1:
                overlap[0] += 1

            try:
                for _ in range(src_delays[i % len(src_delays)]):
                    await checkpoint()

                if self.i != i:
                    overlap[0] += 1

                if i >= len(xs):
                    raise StopAsyncIteration

                self.i = i + 1
                pulls.append(xs[i])
                return xs[i]
            finally:
                active[0] -= 1

    its = AI.tee(Src(), n)
    seen: list[list] = [[] for _ in its]

    async def consume(i: int) -> None:
        d = cons_delays[i % len(cons_delays)]
        for _ in range(d):
            await checkpoint()

        async for v in its[i]:
            seen[i].append(v)
            for _ in range((d + len(seen[i])) % 3):
                await checkpoint()

    async with create_task_group() as tg:
        for i in range(len(its)):
            tg.start_soon(consume, i)

    col.case([case], True, sample={"case": case, "seen": seen})
    col.count("compared:tee_concurrent")
    for i, s in enumerate(seen):
        if s != list(xs):
            col.violation("tee-consumer-incomplete", {"consumer": i, "seen": s}, case)

    if pulls != list(xs) or overlap[0]:
        col.violation(
            "tee-source-not-consumed-once",
            {"pulls": pulls, "concurrent_entries": overlap[0]},
            case,
        )

    del source


def tee_cases(rng: random.Random, tier: str):  # noqa: ANN201
    for kind in ("sync", "async"):
        for n in (-1, 0, 1, 2, 3):
            for ln in range(0, 4):
                xs = list(range(10, 10 + ln))
                if n <= 1:
                    yield {"fn": "tee_seq", "xs": xs, "n": n, "order": [0] * (ln + 1),
                           "kind": kind}  # fmt: skip
                    continue

                steps = n * (ln + 1)
                if n**steps <= (70000 if tier == "thorough" else 600):
                    orders = [list(o) for o in I.product(range(n), repeat=steps)]
                else:
                    orders = [[rng.randrange(n) for _ in range(steps)]
                              for _ in range(3000 if tier == "thorough" else 100)]  # fmt: skip

                for o in orders:
                    yield {"fn": "tee_seq", "xs": xs, "n": n, "order": o, "kind": kind}

    for _ in range(20000 if tier == "thorough" else 2000):
        ln = rng.randrange(0, 6)
        yield {
            "fn": "tee_conc",
            "xs": list(range(ln)),
            "n": rng.randrange(2, 5),
            "src_delays": [rng.randrange(0, 4) for _ in range(3)],
            "cons_delays": [rng.randrange(0, 4) for _ in range(4)],
        }


itertools_chain = I.chain


def all_cases(tier: str, seed: int):  # noqa: ANN201
    rng = random.Random(seed * 7919 + 19)
    seqs = base_sequences()
    short = [[], [0], [1], [1, 0], [0, 1, 1], [1, 1, 0, 1], [2, 0, 1]]
    yield from fixed_cases()
    yield from enumerate_cases(seqs, short, True)
    yield from random_cases(rng, 3000 if tier == "thorough" else 300)
    yield from tee_cases(rng, tier)
    # the same with odd element values for the pass-through functions
    stride = 1 if tier == "thorough" else 4
    for i, c in enumerate(itertools_chain(enumerate_cases(seqs, short, True), tee_cases(rng, tier))):
        if i % stride == 0:
            o = oddify(c)
            if o is not None:
                yield o


NSHARDS = 16
REQUIRED = {
    "accumulate", "batched", "chain", "chain_from_iterable", "combinations",
    "combinations_with_replacement", "compress", "count", "cycle", "dropwhile",
    "filterfalse", "groupby", "islice", "pairwise", "permutations", "product", "repeat",
    "starmap", "takewhile", "tee", "tee_concurrent", "zip_longest", "reduce",
}  # fmt: skip


def shards(tier: str, seed: int) -> list[dict]:
    return [{"tier": tier, "seed": seed, "shard": i, "of": NSHARDS} for i in range(NSHARDS)]


def run_shard(desc: dict, col) -> None:  # noqa: ANN001
    import anyio

    async def main() -> None:
        for i, case in enumerate(all_cases(desc["tier"], desc["seed"])):
            if i % desc["of"] == desc["shard"]:
                await guarded_async(col, case, run_case, case, col)

    anyio.run(main)


def replay(case: dict, col) -> None:  # noqa: ANN001
    import anyio

    async def main() -> None:
        await guarded_async(col, case, run_case, case, col)

    anyio.run(main)


def finish(col, tier: str) -> None:  # noqa: ANN001
    fns = {k.split(":", 1)[1] for k in col.counters if k.startswith("compared:")}
    missing = REQUIRED - fns
    if missing:
        col.inconclusive_because(f"functions never compared: {sorted(missing)}")


def extra_coverage(col, tier: str) -> dict:  # noqa: ANN001
    return {
        "functions_compared": sorted(
            k.split(":", 1)[1] for k in col.counters if k.startswith("compared:")
        ),
        "exhaustive_subspace": "sequences len<=4 over {0,1}, len<=3 over {0,1,2}; "
        "parameters {None,-1,0,1,2,3} per slot; all tee interleavings with n^steps<=600 "
        "(quick) / 70000 (thorough)",
    }
