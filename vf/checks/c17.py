"""C17 -- TLS streams: faithful transport over any fragmentation, truncation detected.

Two real TLSStream endpoints (OpenSSL through ``ssl``; TLS 1.2 and 1.3 forced) talk over an
in-memory transport owned by the harness.  Each direction is a ``Wire`` that re-fragments
the ciphertext according to the scenario (pass-through, 1-byte chunks, seeded random splits,
coalescing) and can be *cut* after an exact number of ciphertext bytes (everything later is
dropped and the reader sees the transport's EndOfStream without a close_notify).  Payload
bytes are position dependent, so loss, duplication and reordering are distinguishable.  The
sessions run on the virtual-time loop: a want-read / want-write mis-step in the pump loop
shows up as a Deadlock instead of a hang.

Oracle: bytes read == bytes written, per direction, while both directions are busy;
1 <= len(receive(n)) <= n; after the peer's aclose() (standard_compatible) -> EndOfStream;
after a cut: with standard_compatible=True never EndOfStream (BrokenResourceError expected
once the decrypted prefix has been handed out), with standard_compatible=False EndOfStream;
a cut during the handshake makes wrap() fail on both sides instead of hanging or succeeding.
"""

from __future__ import annotations

import random
import ssl

from ..collect import guarded, sig_of
from ..loops import BusyLoop, Deadlock, run

PROPERTY = "C17"
LEVEL = "fault_enumeration"
RULE = (
    "case = (TLS version 1.2|1.3, standard_compatible, message-size sequence per direction "
    "from 0 B to 9 records (up to 140000 B in one send), receive sizes, wire chunk policy per "
    "direction pass|1byte|random|coalesce|empties (zero-length items interspersed), transport send latency 1-4 cycles with a one-sender "
    "guard like SocketStream's, cut point: none | ciphertext byte offset c in one direction). For the small "
    "base session the cut offset is enumerated over EVERY ciphertext byte of both "
    "directions (thorough; quick: every 2nd offset plus the first/last offsets); larger "
    "sessions and chunkings are seeded. Non-trivial = the transport was cut, or a chunk "
    "policy other than pass-through was used; distinct = distinct (version, compat, "
    "policies, sizes, cut) outcome signature."
)
ASSUMPTIONS = [
    "OpenSSL via the ssl module and trustme certificates are trusted",
    "the in-memory Wire delivers bytes in order; a cut drops everything after offset c",
]
SHARD_TIMEOUT = {"quick": 400, "thorough": 1700}
NSHARDS = 16
_ctx_cache: dict = {}


def contexts(ver: str):  # noqa: ANN201
    if "ca" not in _ctx_cache:
        import trustme

        ca = trustme.CA()
        _ctx_cache["ca"] = ca
        _ctx_cache["cert"] = ca.issue_cert("localhost")

    key = ("ctx", ver)
    if key not in _ctx_cache:
        ca, cert = _ctx_cache["ca"], _ctx_cache["cert"]
        sctx = ssl.create_default_context(ssl.Purpose.CLIENT_AUTH)
        cert.configure_cert(sctx)
        cctx = ssl.create_default_context(ssl.Purpose.SERVER_AUTH)
        ca.configure_trust(cctx)
        v = ssl.TLSVersion.TLSv1_2 if ver == "1.2" else ssl.TLSVersion.TLSv1_3
        for c in (sctx, cctx):
            c.minimum_version = v
            c.maximum_version = v
            if hasattr(ssl, "OP_IGNORE_UNEXPECTED_EOF"):
                c.options &= ~ssl.OP_IGNORE_UNEXPECTED_EOF

        _ctx_cache[key] = (sctx, cctx)

    return _ctx_cache[key]


def pattern(direction: int, start: int, n: int) -> bytes:
    return bytes(((k * 131 + direction * 89 + (k >> 8) * 7) & 0xFF) for k in range(start, start + n))


def execute(case: dict) -> dict:
    import anyio
    from anyio import (BrokenResourceError, BusyResourceError, ClosedResourceError, EndOfStream,
                       create_task_group)  # fmt: skip
    from anyio.abc import ByteStream
    from anyio.streams.tls import TLSStream

    viol: list = []
    out: dict = {"viol": viol, "windows": {}, "nontrivial": False}
    obs: dict = {"sent_cipher": [0, 0], "events": [], "concurrent_transport_send": 0}
    rng = random.Random(case.get("seed", 0))

    def window(name: str, n: int = 1) -> None:
        out["windows"][name] = out["windows"].get(name, 0) + n

    class Wire:
        def __init__(self, d: int, policy: str, cut) -> None:  # noqa: ANN001
            self.d, self.policy, self.cut = d, policy, cut
            self.buf = bytearray()
            self.total = 0
            self.closed = False
            self.was_cut = False
            self.ev = anyio.Event()

        def put(self, data: bytes) -> None:
            if self.closed:
                return

            if self.cut is not None and self.total + len(data) > self.cut:
                data = data[: max(0, self.cut - self.total)]
                self.buf += data
                self.total += len(data)
                self.closed = True
                self.was_cut = True
            else:
                self.buf += data
                self.total += len(data)

            obs["sent_cipher"][self.d] = self.total
            self.ev.set()

        def close(self) -> None:
            self.closed = True
            self.ev.set()

        async def get(self) -> bytes:
            while not self.buf and not self.closed:
                self.ev = anyio.Event()
                await self.ev.wait()

            if self.policy == "coalesce" and not self.closed:
                await anyio.sleep(0)  # let more records pile up

            if not self.buf:
                raise EndOfStream

            if self.policy == "empties":
                # an object-stream transport may deliver zero-length items: they carry no
                # bytes and say nothing about the end of the transport
                self.gets = getattr(self, "gets", 0) + 1
                if self.gets % 3 != 0:
                    obs["empty_chunks"] = obs.get("empty_chunks", 0) + 1
                    return b""

            if self.policy == "1byte":
                n = 1
            elif self.policy == "random":
                n = rng.randint(1, max(1, min(len(self.buf), 700)))
            else:
                n = len(self.buf)

            chunk = bytes(self.buf[:n])
            del self.buf[:n]
            return chunk

    class End(ByteStream):
        def __init__(self, out_wire: Wire, in_wire: Wire) -> None:
            self.o, self.i = out_wire, in_wire
            self.closed = False
            self.sending = False
            self.nsend = 0

        async def send(self, item: bytes) -> None:
            if self.closed:
                raise ClosedResourceError

            # like anyio's own SocketStream: one sender at a time (its ResourceGuard), and
            # a send may stay suspended for a few cycles (back-pressure)
            if self.sending:
                obs["concurrent_transport_send"] += 1
                raise BusyResourceError("sending")

            self.sending = True
            try:
                lat = case.get("send_lat") or [0]
                self.nsend += 1
                for _ in range(1 + lat[self.nsend % len(lat)]):
                    await anyio.sleep(0)

                self.o.put(bytes(item))
            finally:
                self.sending = False

        async def receive(self, max_bytes: int = 65536) -> bytes:
            if self.closed:
                raise ClosedResourceError

            return await self.i.get()

        async def send_eof(self) -> None:
            self.o.close()

        async def aclose(self) -> None:
            self.closed = True
            self.o.close()

    cut = case.get("cut")  # [direction, offset] | None
    w01 = Wire(0, case["policy"][0], cut[1] if cut and cut[0] == 0 else None)  # client->server
    w10 = Wire(1, case["policy"][1], cut[1] if cut and cut[0] == 1 else None)  # server->client
    sctx, cctx = contexts(case["ver"])
    compat = case["compat"]
    res: dict = {"client": {}, "server": {}}

    async def side(name: str, end: End, d_out: int, sizes: list, rsizes: list) -> None:
        r = res[name]
        try:
            mine = case.get("compat_" + name, compat)
            if name == "server":
                s = await TLSStream.wrap(end, server_side=True, ssl_context=sctx,
                                         standard_compatible=mine)  # fmt: skip
            else:
                s = await TLSStream.wrap(end, hostname="localhost", ssl_context=cctx,
                                         standard_compatible=mine)  # fmt: skip
        except BaseException as e:  # noqa: BLE001
            r["wrap_exc"] = type(e).__name__
            await end.aclose()
            return

        r["wrapped"] = True
        got = bytearray()
        r["got"] = got
        d_in = 1 - d_out
        expected = sum(case["sizes"][d_in])

        async def writer() -> None:
            pos = 0
            try:
                for n in sizes:
                    await s.send(pattern(d_out, pos, n))
                    pos += n
            except BaseException as e:  # noqa: BLE001
                r["write_exc"] = type(e).__name__

            r["sent"] = pos

        async def read_some(limit: int | None) -> None:
            """one receiver per stream: read until ``limit`` bytes arrived (None: until
            the stream ends); records how the stream ended if it did"""
            k = 0
            try:
                if limit is not None:
                    for _ in range(case.get("read_delay", 0)):
                        await anyio.sleep(0)  # let several records pile up in the transport

                creads = case.get("creads") or {}
                while limit is None or len(got) < limit:
                    n = rsizes[k % len(rsizes)]
                    k += 1
                    if limit is not None and str(k) in creads:
                        # this receive() runs in a scope that is cancelled already (delay
                        # None) or gets cancelled `delay` loop cycles later - maybe in the
                        # very cycle in which the ciphertext arrives.  Whether it raises or
                        # returns data, nothing may be lost: the stream goes on right after
                        # the last byte that a receive() handed out
                        delay = creads[str(k)]
                        with anyio.CancelScope() as cs:
                            if delay is None:
                                cs.cancel()
                            else:
                                _cancel_after(cs, delay)

                            chunk = await s.receive(n)

                        if cs.cancelled_caught:
                            window("receive_cancelled:" + ("pre" if delay is None else "timed"))
                            continue

                        window("receive_completed_in_cancelled_or_timed_scope")
                    else:
                        chunk = await s.receive(n)

                    if not 1 <= len(chunk) <= n:
                        viol.append(("receive-size-out-of-bounds", {"max_bytes": n, "got": len(chunk)}))
                        if not chunk:
                            r["read_end"] = "empty-chunk"
                            return  # (an endless stream of empty chunks must not spin)

                    got.extend(chunk)
            except EndOfStream:
                r["read_end"] = "EndOfStream"
            except BrokenResourceError:
                r["read_end"] = "BrokenResourceError"
            except BaseException as e:  # noqa: BLE001
                r["read_end"] = type(e).__name__

        async with create_task_group() as tg:
            tg.start_soon(writer)
            await read_some(expected)

        if "read_end" in r or "write_exc" in r:
            # the stream broke.  Whatever is tried on it afterwards must again be reported
            # in AnyIO's vocabulary (never a raw ssl.SSLError), and a second receive must
            # tell the same story as the first
            post: dict = {}
            for what in ("receive", "send"):
                try:
                    with anyio.fail_after(5):
                        if what == "receive":
                            await s.receive(10)
                        else:
                            await s.send(b"x")

                    post[what] = "ok"
                except BaseException as e:  # noqa: BLE001
                    post[what] = type(e).__name__

            r["post"] = post
            # drop the transport so that the peer is woken up too
            await end.aclose()
            return

        if name == case["closer"]:
            try:
                with anyio.fail_after(5):
                    if case.get("close_via") == "unwrap":
                        # the explicit closing handshake; the transport is ours afterwards
                        await s.unwrap()
                        await end.aclose()
                    else:
                        await s.aclose()

                r["aclose"] = "ok"
            except BaseException as e:  # noqa: BLE001
                r["aclose"] = type(e).__name__
                await end.aclose()
        else:
            # everything arrived: the next thing must be the end of the stream
            await read_some(None)
            try:
                with anyio.fail_after(5):
                    await s.aclose()

                r["aclose"] = "ok"
            except BaseException as e:  # noqa: BLE001
                r["aclose"] = type(e).__name__
                await end.aclose()

    async def main() -> None:
        async with create_task_group() as tg:
            tg.start_soon(side, "server", End(w10, w01), 1, case["sizes"][1], case["rsizes"][1])
            tg.start_soon(side, "client", End(w01, w10), 0, case["sizes"][0], case["rsizes"][0])

    info: dict = {}
    try:
        run(main, config=case.get("cfg", "stock"), info=info, cycle_budget=400000)
    except Deadlock:
        viol.append(("pump-deadlock", {"res": _summ(res)}))
    except BusyLoop:
        viol.append(("busy-loop", {}))
    except BaseException as e:  # noqa: BLE001
        viol.append(("exception-escaped-session", {"exc": repr(e)}))

    out["cipher_len"] = obs["sent_cipher"]
    # ------------------------------------------------------------------ oracle
    if cut is None:
        for name, d_in, peer in (("server", 0, "client"), ("client", 1, "server")):
            r, pr = res[name], res[peer]
            if not r.get("wrapped"):
                viol.append(("handshake-failed-on-intact-transport", {"side": name, "exc": r.get("wrap_exc")}))
                continue

            want = pattern(d_in, 0, sum(case["sizes"][d_in]))
            if bytes(r.get("got", b"")) != want:
                viol.append(("payload-corrupted",
                             {"side": name, "got_len": len(r.get("got", b"")), "want_len": len(want),
                              "first_diff": _first_diff(bytes(r.get("got", b"")), want)}))  # fmt: skip

            if name != case["closer"] and r.get("read_end") != "EndOfStream" and not viol:
                viol.append(("wrong-end-of-stream-signal", {"side": name, "got": r.get("read_end"),
                                                            "compat": compat}))  # fmt: skip

            if r.get("aclose") not in ("ok", None) and not viol:
                viol.append(("aclose-failed-on-intact-transport", {"side": name, "exc": r.get("aclose")}))

            if pr.get("write_exc"):
                viol.append(("send-failed-on-intact-transport", {"side": peer, "exc": pr["write_exc"]}))
    else:
        out["nontrivial"] = True
        d, off = cut
        victim = "server" if d == 0 else "client"  # reads the truncated direction
        r = res[victim]
        window("cut:" + ("handshake" if not r.get("wrapped") else "data"))
        sent_plain = sum(case["sizes"][d])
        if r.get("wrapped"):
            got = bytes(r.get("got", b""))
            want = pattern(d, 0, sent_plain)
            if got != want[: len(got)]:
                viol.append(("payload-corrupted-before-cut", {"side": victim, "got_len": len(got)}))

            end = r.get("read_end")
            truncated = w01.was_cut if d == 0 else w10.was_cut
            if truncated and end is None:
                # the victim got all its payload and is the closer: the cut hit the closing
                # handshake only, which its aclose() has to notice or tolerate -- not judged
                window("cut_after_payload_on_closer_side")
            elif truncated:
                if compat and end == "EndOfStream":
                    viol.append(("truncation-reported-as-clean-end-of-stream",
                                 {"side": victim, "cut_at": off, "delivered": len(got)}))  # fmt: skip
                elif compat and end != "BrokenResourceError":
                    viol.append(("truncation-not-reported-as-BrokenResourceError",
                                 {"side": victim, "cut_at": off, "got": end}))  # fmt: skip
                elif not compat and end != "EndOfStream":
                    viol.append(("truncation-with-standard_compatible-off-not-EndOfStream",
                                 {"side": victim, "cut_at": off, "got": end}))  # fmt: skip
                else:
                    window("truncation_detected" if compat else "ragged_eof_accepted")

                post = r.get("post") or {}
                allowed = {"BrokenResourceError", "EndOfStream", "ClosedResourceError"}
                if post:
                    window("operations_after_detected_truncation")
                    if post.get("receive") != end:
                        viol.append(("second-receive-after-truncation-tells-a-different-story",
                                     {"first": end, "second": post.get("receive")}))  # fmt: skip

                    if post.get("send") not in allowed | {"ok"}:
                        viol.append(("send-after-truncation-leaks-foreign-exception",
                                     {"got": post.get("send")}))  # fmt: skip
        else:
            # cut during the handshake: wrap() must fail (not hang -- no Deadlock -- and
            # not succeed)
            if not r.get("wrap_exc"):
                viol.append(("handshake-neither-failed-nor-completed", {"side": victim}))

    if case["policy"] != ["pass", "pass"]:
        out["nontrivial"] = True

    out["sig"] = sig_of([case["ver"], compat, case["policy"], case["sizes"], case.get("cut"),
                         _summ(res)])  # fmt: skip
    out["log_tail"] = [_summ(res), {"cipher_len": obs["sent_cipher"]}]
    return out


def _cancel_after(scope, cycles: int) -> None:  # noqa: ANN001
    import asyncio

    loop = asyncio.get_running_loop()

    def tick(left: int) -> None:
        if left <= 0:
            scope.cancel()
        else:
            loop.call_soon(tick, left - 1)

    loop.call_soon(tick, cycles)


def _summ(res: dict) -> dict:
    return {k: {kk: (len(vv) if isinstance(vv, (bytes, bytearray)) else vv) for kk, vv in v.items()}
            for k, v in res.items()}  # fmt: skip


def _first_diff(a: bytes, b: bytes) -> int:
    for i, (x, y) in enumerate(zip(a, b)):
        if x != y:
            return i

    return min(len(a), len(b))


BASE = {"sizes": [[5, 300], [17]], "rsizes": [[64], [7, 100]], "closer": "client"}


def base_case(ver: str, compat: bool, policy: list, cut=None, cfg: str = "stock") -> dict:  # noqa: ANN001
    return {"cfg": cfg, "ver": ver, "compat": compat, "policy": policy, "cut": cut, "seed": 1, **BASE}


def all_cases(tier: str, seed: int):  # noqa: ANN201
    rng = random.Random(seed * 5081 + 17)
    stride = 1 if tier == "thorough" else 2
    for ver in ("1.2", "1.3"):
        for compat in (True, False):
            # pilot run (uncut) to learn the ciphertext length of each direction
            pilot = execute(base_case(ver, compat, ["pass", "pass"]))
            lens = pilot["cipher_len"]
            yield base_case(ver, compat, ["pass", "pass"])
            for d in (0, 1):
                offs = set(range(0, lens[d] + 1, stride))
                offs |= {0, 1, lens[d] - 1, lens[d]}
                for off in sorted(o for o in offs if 0 <= o <= lens[d]):
                    yield base_case(ver, compat, ["pass", "pass"], [d, off])

            for pol in (["1byte", "1byte"], ["random", "coalesce"], ["coalesce", "random"],
                        ["1byte", "pass"], ["pass", "random"], ["empties", "empties"],
                        ["empties", "pass"]):  # fmt: skip
                yield base_case(ver, compat, pol)
                for _ in range(12 if tier == "thorough" else 3):
                    d = rng.randrange(2)
                    yield base_case(ver, compat, pol, [d, rng.randrange(0, lens[d] + 1)])

    # closing through an explicit unwrap(): the closing handshake is performed whatever the
    # closer's own standard_compatible says, so the peer reads a clean end of stream
    for ver in ("1.2", "1.3"):
        for closer in ("client", "server"):
            for mine in (True, False):
                for peer in (True,):  # (a peer with standard_compatible=False never answers)
                    other = "server" if closer == "client" else "client"
                    yield {"cfg": "stock", "ver": ver, "compat": peer, "compat_" + closer: mine,
                           "compat_" + other: peer, "policy": ["pass", "random"],
                           "sizes": [[5, 300], [17]], "rsizes": [[64], [7, 100]], "closer": closer,
                           "cut": None, "seed": 1, "close_via": "unwrap"}  # fmt: skip

    # several small records coalesced into ONE transport chunk, read with max_bytes values
    # around the sums of the first two / three records (a receive() that drains more than
    # one record from the BIO must still respect max_bytes)
    for ver in ("1.2", "1.3"):
        for s_ in (10, 40, 100):
            for k in (3, 4, 6):
                for m in sorted({s_ + 1, 2 * s_ - 1, 2 * s_ + 1, (5 * s_) // 2, 3 * s_ - 1, 3 * s_ + 1}):
                    yield {"cfg": "stock", "ver": ver, "compat": True, "policy": ["coalesce", "coalesce"],
                           "sizes": [[s_] * k, [s_] * k], "rsizes": [[m], [m]], "closer": "client",
                           "cut": None, "seed": 1, "read_delay": 40, "send_lat": [0]}  # fmt: skip

    # receive() calls that are cancelled: in a scope cancelled beforehand while plaintext is
    # buffered (rest of a record read with a small max_bytes; further records coalesced into
    # the same chunk), and by a cancel that lands at every cycle around the arrival of the
    # ciphertext.  The payload oracle decides: not one byte may be lost or repeated
    for ver in ("1.2", "1.3"):
        for pol in ("pass", "coalesce"):
            for rs in ([4], [3, 50]):
                for ks in ([2], [2, 3], [1, 3, 4]):
                    yield {"cfg": "stock", "ver": ver, "compat": True, "policy": [pol, pol],
                           "sizes": [[10, 25, 10], [12, 12]], "rsizes": [rs, rs], "closer": "client",
                           "cut": None, "seed": 1, "read_delay": 30 if pol == "coalesce" else 0,
                           "send_lat": [0], "creads": {str(k): None for k in ks}}  # fmt: skip

        for delay in range(0, 14):
            for lat in (0, 1, 2):
                yield {"cfg": "stock", "ver": ver, "compat": True, "policy": ["pass", "pass"],
                       "sizes": [[10, 25, 10], [12, 12]], "rsizes": [[64], [64]], "closer": "client",
                       "cut": None, "seed": 1, "send_lat": [lat],
                       "creads": {"1": delay, "2": delay // 2}}  # fmt: skip

    sizes_pool = [0, 1, 2, 100, 1000, 16383, 16384, 16385, 20000, 40000, 70000, 140000]
    for _ in range(900 if tier == "thorough" else 60):
        ver = rng.choice(["1.2", "1.3"])
        sizes = [[rng.choice(sizes_pool) for _ in range(rng.randint(0, 4))] for _ in range(2)]
        case = {"cfg": rng.choice(["stock", "eager"]), "ver": ver, "compat": rng.random() < 0.6,
                "policy": [rng.choice(["pass", "1byte", "random", "coalesce", "empties"])
                           for _ in range(2)],
                "sizes": sizes, "rsizes": [[rng.choice([1, 7, 100, 5000, 65536]) for _ in range(2)]
                                           for _ in range(2)],
                "closer": rng.choice(["client", "server"]), "cut": None,
                "seed": rng.randrange(1 << 30),
                "send_lat": [rng.choice([0, 0, 1, 2, 3]) for _ in range(5)]}  # fmt: skip
        if sum(map(sum, sizes)) > 30000 and "1byte" in case["policy"]:
            case["policy"] = ["random", "random"]

        if rng.random() < 0.3:
            case["read_delay"] = rng.choice([5, 20, 60])

        if rng.random() < 0.3:
            case["creads"] = {str(rng.randint(1, 6)): rng.choice([None, None, 0, 1, 2, 3, 5, 8])
                              for _ in range(rng.randint(1, 3))}  # fmt: skip

        if rng.random() < 0.4:
            case["cut"] = [rng.randrange(2), rng.randrange(0, 3000 + sum(sizes[0]) + sum(sizes[1]))]

        yield case


def judge(case: dict, col) -> None:  # noqa: ANN001
    res = execute(case)
    col.case(res["sig"], res["nontrivial"], sample={"case": case, "outcome": res["log_tail"]})
    for k, v in res["windows"].items():
        col.count("window:" + k, v)

    col.count("ver:" + case["ver"])
    col.count("bytes_of_ciphertext", sum(res["cipher_len"]))
    seen = set()
    for clause, detail in res["viol"]:
        if clause in seen:
            continue

        seen.add(clause)
        col.violation(clause, {"detail": detail, "outcome": res["log_tail"]}, case)


def shards(tier: str, seed: int) -> list[dict]:
    return [{"tier": tier, "seed": seed, "shard": i, "of": NSHARDS} for i in range(NSHARDS)]


def run_shard(desc: dict, col) -> None:  # noqa: ANN001
    for i, case in enumerate(all_cases(desc["tier"], desc["seed"])):
        if i % desc["of"] == desc["shard"]:
            guarded(col, case, judge, case, col)
            if getattr(col, "unclassified_count", 0) >= 8:
                break


def replay(case: dict, col) -> None:  # noqa: ANN001
    guarded(col, case, judge, case, col)


def finish(col, tier: str) -> None:  # noqa: ANN001
    for k in ("window:cut:handshake", "window:cut:data", "window:truncation_detected",
              "window:ragged_eof_accepted", "ver:1.2", "ver:1.3", "window:receive_cancelled:timed",
              "window:receive_completed_in_cancelled_or_timed_scope"):  # fmt: skip
        if not col.counters.get(k):
            col.inconclusive_because(f"deciding window never reached: {k}")
