"""C04 -- cancellation containment: shields hold and the right scope absorbs.

Shadow-model oracle (vf/tree.py): an operation may raise the cancellation exception only
while the task's current scope is effectively cancelled (or was within the delivery window);
at every scope exit carrying a cancellation: absorbed iff the scope itself is cancelled and
no cancelled enclosing scope is visible, cancelled_caught == absorbed, other exceptions pass
unchanged (also inside exception groups).
"""

from __future__ import annotations

from .. import treecheck, treefam

PROPERTY = "C04"
LEVEL = "exploration"
RULE = (
    "case = generated task-tree / cancel-scope program (see vf/treegen.py profile c04: "
    "checkpoints, sleeps, sleep_forever, event waits, nested scopes with shields and "
    "deadlines, task groups, spawn, cancel of any scope/group/handle, shield toggles, raise, "
    "shielded cleanup, catch-cancel-then-continue, handle waits, start() children) + agents "
    "(cancel/shield/deadline/set at a cycle or virtual instant, before|after the tasks' "
    "wake-ups) on {stock, eager}. Non-trivial = a scope exit carried a cancellation (absorb decision taken) or a cancel hit a blocked task; distinct = distinct trace signature."
)
ASSUMPTIONS = [
    "asyncio FIFO ready queue (never reordered); VLoop virtual time",
    "generated code never swallows a cancellation (it re-raises, or raises from cleanup)",
    "independent shadow scope model kept in lock-step by the interpreter (vf/shadow.py); "
    "same-instant / in-flight ties accept both coherent outcomes and are counted",
]
SHARD_TIMEOUT = {"quick": 300, "thorough": 1500}


def all_cases(tier: str, seed: int):  # noqa: ANN201
    yield from treecheck.cases("c04", tier, seed, 4000, 60000, extra=treefam.scope_chains)


def shards(tier: str, seed: int) -> list[dict]:
    return treecheck.shards(tier, seed)


def run_shard(desc: dict, col) -> None:  # noqa: ANN001
    for i, case in enumerate(all_cases(desc["tier"], desc["seed"])):
        if i % desc["of"] == desc["shard"]:
            treecheck.judge(PROPERTY, case, col)


def replay(case: dict, col) -> None:  # noqa: ANN001
    treecheck.judge(PROPERTY, case, col)


def finish(col, tier: str) -> None:  # noqa: ANN001
    for k in ['window:scope_exit_with_cancellation', 'window:cancel_while_behind_shield', 'window:shield_toggled_while_active']:
        if not col.counters.get(k):
            col.inconclusive_because(f"deciding window never reached: {k}")
