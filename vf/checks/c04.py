"""C04 -- cancellation containment: shields hold and the right scope absorbs.

Shadow-model oracle (vf/tree.py): an operation may raise the cancellation exception only
while the task's current scope is effectively cancelled (or was within the delivery window);
at every scope exit carrying a cancellation: absorbed iff the scope itself is cancelled and
no cancelled enclosing scope is visible, cancelled_caught == absorbed, other exceptions pass
unchanged (also inside exception groups).

Second engine (``foreign_cases``): the absorb decision as a function of WHAT arrives at the
exit.  Scope situation (6) x exception shape: every non-empty combination of {the scope's own
AnyIO cancellation, a native asyncio.CancelledError, two ordinary errors} raised bare, as an
exception group, or as a nested group.  Oracle: the non-AnyIO leaves that come out are, by
identity, the ones that went in; AnyIO cancellation leaves vanish iff the scope absorbs
(cancelled, no cancelled parent visible); cancelled_caught == (absorbs and one was there).
"""

from __future__ import annotations

import asyncio
import itertools

from .. import treecheck, treefam
from ..collect import guarded, sig_of
from ..loops import run

PROPERTY = "C04"
LEVEL = "exploration"
RULE = (
    "case = generated task-tree / cancel-scope program (see vf/treegen.py profile c04: "
    "checkpoints, sleeps, sleep_forever, event waits, nested scopes with shields and "
    "deadlines, task groups, spawn, cancel of any scope/group/handle, shield toggles, raise, "
    "shielded cleanup, catch-cancel-then-continue, handle waits, start() children) + agents "
    "(cancel/shield/deadline/set at a cycle or virtual instant, before|after the tasks' "
    "wake-ups) on {stock, eager}. Non-trivial = a scope exit carried a cancellation (absorb decision taken) or a cancel hit a blocked task; distinct = distinct trace signature."
)
ASSUMPTIONS = [
    "asyncio FIFO ready queue (never reordered); VLoop virtual time",
    "generated code never swallows a cancellation (it re-raises, or raises from cleanup)",
    "independent shadow scope model kept in lock-step by the interpreter (vf/shadow.py); "
    "same-instant / in-flight ties accept both coherent outcomes and are counted",
]
SHARD_TIMEOUT = {"quick": 300, "thorough": 1500}


class Boom(Exception):
    pass


SITUATIONS = ["uncancelled", "cancelled", "cancelled+shield", "cancelled-in-cancelled-parent",
              "cancelled+shield-in-cancelled-parent", "uncancelled-in-cancelled-parent"]  # fmt: skip
PARTS = ["own", "native", "boom", "boom2"]


def foreign_cases():  # noqa: ANN201
    for cfg in ("stock", "eager"):
        for sit in SITUATIONS:
            for r in range(1, len(PARTS) + 1):
                for parts in itertools.combinations(PARTS, r):
                    shapes = ["group", "nested"] if len(parts) > 1 else ["bare", "group", "nested"]
                    for shape in shapes:
                        yield {"t": "foreign", "cfg": cfg, "situation": sit, "parts": list(parts),
                               "shape": shape}  # fmt: skip
                        if "native" in parts and sit != "uncancelled":
                            # the native cancellation was raised in the handler of an ordinary
                            # error that was itself raised while an AnyIO cancellation unwound
                            # (native.__context__ -> error -> AnyIO's): still a native one
                            # (seeded change C04-e; the DIRECT chain native -> AnyIO's is the
                            # open finding F36 and belongs to C05)
                            yield {"t": "foreign", "cfg": cfg, "situation": sit, "parts": list(parts),
                                   "shape": shape, "chain": "via-error"}  # fmt: skip


def _leaves(e) -> list:  # noqa: ANN001
    if e is None:
        return []

    if isinstance(e, BaseExceptionGroup):
        return [x for sub in e.exceptions for x in _leaves(sub)]

    return [e]


def judge_foreign(case: dict, col) -> None:  # noqa: ANN001
    from anyio import CancelScope
    from anyio.lowlevel import checkpoint

    sit, parts, shape = case["situation"], case["parts"], case["shape"]
    res: dict = {}

    async def main() -> None:
        parent_cancelled = "cancelled-parent" in sit
        cancelled = sit.startswith("cancelled")
        shield = "+shield" in sit
        effectively = cancelled or (parent_cancelled and not shield)
        if "own" in parts and not effectively:
            res["skip"] = True
            return

        objs = {"native": asyncio.CancelledError("native cancellation with a message"),
                "boom": Boom(1), "boom2": Boom(2)}  # fmt: skip
        out = None
        with CancelScope() as parent:
            if parent_cancelled:
                parent.cancel()

            try:
                with CancelScope(shield=shield) as sc:
                    if cancelled:
                        sc.cancel()

                    own = None
                    if "own" in parts:
                        try:
                            await checkpoint()
                        except asyncio.CancelledError as c:
                            own = c

                        if own is None:
                            res["no_delivery"] = True
                            return

                        objs["own"] = own

                    # (built and raised outside any except block: no __context__ chain
                    # that would make a native cancellation look like an AnyIO one - unless
                    # the case asks for the chain native -> ordinary error -> AnyIO's)
                    if case.get("chain") == "via-error":
                        anyio_c = own
                        if anyio_c is None:
                            try:
                                await checkpoint()
                            except asyncio.CancelledError as c:
                                anyio_c = c

                        if anyio_c is None:
                            res["no_delivery"] = True
                            return

                        mid = Boom("raised while the cancellation unwound")
                        mid.__context__ = anyio_c
                        objs["native"].__context__ = mid
                        res["chained"] = True

                    items = [objs[p] for p in parts]
                    if shape == "bare":
                        exc = items[0]
                    elif shape == "group":
                        exc = BaseExceptionGroup("g", items)
                    else:
                        exc = BaseExceptionGroup("outer", [BaseExceptionGroup("inner", items[:1])]
                                                 + items[1:])  # fmt: skip

                    res["in"] = items
                    raise exc
            except BaseException as e:  # noqa: BLE001
                out = e

            res["out"] = out
            res["caught"] = sc.cancelled_caught
            res["absorbs"] = cancelled and not (parent_cancelled and not shield)
            # leave the (possibly cancelled) parent without a further checkpoint

    viol: list = []
    try:
        run(main, config=case["cfg"])
    except BaseException as e:  # noqa: BLE001
        viol.append(("exception-escaped-session", {"exc": repr(e)}))

    if res.get("skip"):
        col.count("foreign_cases_skipped_inapplicable")
        return

    if res.get("no_delivery"):
        viol.append(("no-cancellation-delivered-in-effectively-cancelled-scope", {}))
    elif "in" in res:
        items, out = res["in"], res["out"]
        own = [x for x, p in zip(items, parts) if p == "own"]
        others = [x for x, p in zip(items, parts) if p != "own"]
        got = _leaves(out)
        want = others + ([] if res["absorbs"] else own)
        if sorted(map(id, got)) != sorted(map(id, want)):
            viol.append(("exit-changed-what-passes-through",
                         {"in": [repr(x) for x in items], "out": repr(out),
                          "absorbs": res["absorbs"],
                          "swallowed": [repr(x) for x in want if id(x) not in set(map(id, got))],
                          "invented": [repr(x) for x in got if id(x) not in set(map(id, want))]}))  # fmt: skip

        if res["caught"] != (res["absorbs"] and bool(own)):
            viol.append(("cancelled_caught-wrong", {"cancelled_caught": res["caught"],
                                                    "absorbs": res["absorbs"], "own_present": bool(own)}))  # fmt: skip

    col.case(sig_of(case), True, sample={"case": case, "out": repr(res.get("out"))[:200]})
    col.count("foreign_exception_cases")
    col.count("window:foreign_exception_through_scope_exit")
    if res.get("chained"):
        col.count("window:native_cancellation_chained_to_anyio_one_through_an_ordinary_error")
    for clause, detail in viol:
        col.violation(clause, detail, case)


def all_cases(tier: str, seed: int):  # noqa: ANN201
    yield from foreign_cases()
    yield from treecheck.cases("c04", tier, seed, 4000, 60000, extra=lambda: itertools.chain(treefam.scope_chains(), treefam.shield_sandwich(),
                                                                  treefam.spawn_into_cancelled(), treefam.shielded_checkpoint_window(),
                                                                  treefam.fresh_cancellation(), treefam.late_shield()))


def judge(case: dict, col) -> None:  # noqa: ANN001
    if case.get("t") == "foreign":
        judge_foreign(case, col)
    else:
        guarded(col, case, treecheck.judge, PROPERTY, case, col)


def shards(tier: str, seed: int) -> list[dict]:
    return treecheck.shards(tier, seed)


def run_shard(desc: dict, col) -> None:  # noqa: ANN001
    for i, case in enumerate(all_cases(desc["tier"], desc["seed"])):
        if i % desc["of"] == desc["shard"]:
            guarded(col, case, judge, case, col)


def replay(case: dict, col) -> None:  # noqa: ANN001
    guarded(col, case, judge, case, col)


def finish(col, tier: str) -> None:  # noqa: ANN001
    for k in ['window:scope_exit_with_cancellation', 'window:cancel_while_behind_shield', 'window:shield_toggled_while_active',
              'window:foreign_exception_through_scope_exit']:
        if not col.counters.get(k):
            col.inconclusive_because(f"deciding window never reached: {k}")
