"""C01 -- task group join: no child outlives its task group block.

Generated task trees (nested groups, children spawning children -- also after the group was
cancelled and from cleanup code --, children that block, return, raise, or do shielded
cleanup and re-raise) run on the virtual-time loop; cancels arrive from bodies, children,
sibling groups, enclosing scopes and from agents at every cycle, in particular while the
host is already inside __aexit__.  Oracle (vf/tree.py, per group, so nested groups compose):
at the instant the ``async with`` finishes every member has logged its end, its asyncio task
is done, its handle is final and agrees with how the coroutine actually ended; no member
logs a step afterwards; nothing is alive when the program ends.
"""

from __future__ import annotations

from ..collect import guarded

import itertools

from .. import native_exit, treecheck, treefam

PROPERTY = "C01"
LEVEL = "exploration"
RULE = (
    "case = generated task-tree program (depth<=3, <=9 tasks, 1-4 ops per body; ops: "
    "checkpoints, sleeps, sleep_forever, event waits, nested scopes/groups, spawn into "
    "enclosing groups, cancel of any scope/group/task handle, shield toggles, raise, "
    "return, shielded cleanup re-raising or raising, catch-cancel-then-continue, handle "
    "waits, start() children) + 0-3 agents (cancel/shield/deadline/set at a cycle or "
    "virtual instant, placed before or after the tasks' wake-ups) on {stock, eager}. "
    "Non-trivial = the host entered __aexit__ with unfinished children, or a cancel hit a "
    "blocked task, or a member failed; distinct = distinct trace signature."
)
ASSUMPTIONS = [
    "asyncio FIFO ready queue (never reordered); VLoop virtual time",
    "generated code never swallows a cancellation (it re-raises, or raises from cleanup)",
]
SHARD_TIMEOUT = {"quick": 300, "thorough": 1500}


def all_cases(tier: str, seed: int):  # noqa: ANN201
    yield from native_exit.cases()
    yield from treecheck.cases("c01", tier, seed, 4000, 60000, extra=lambda: itertools.chain(treefam.empty_exit_spawn(), treefam.aexit_cancel_sweep(), treefam.drain_spawn()))


def shards(tier: str, seed: int) -> list[dict]:
    return treecheck.shards(tier, seed)


def judge(case: dict, col) -> None:  # noqa: ANN001
    if case.get("t") == "native_exit":
        res = native_exit.execute(case)
        col.case(res["sig"], True, sample={"case": case, "observed": res["log_tail"]})
        for k, v in res["windows"].items():
            col.count("window:" + k, v)

        for _p, clause, detail in res["viol"]:
            col.violation(clause, detail, case)
    else:
        treecheck.judge(PROPERTY, case, col)


def run_shard(desc: dict, col) -> None:  # noqa: ANN001
    for i, case in enumerate(all_cases(desc["tier"], desc["seed"])):
        if i % desc["of"] == desc["shard"]:
            guarded(col, case, judge, case, col)


def replay(case: dict, col) -> None:  # noqa: ANN001
    guarded(col, case, judge, case, col)


def finish(col, tier: str) -> None:  # noqa: ANN001
    for k in ("nontrivial:aexit-with-unfinished-children", "window:spawn_after_group_cancelled",
              "nontrivial:member-failed",
              "window:child_spawned_while_host_natively_cancelled_in_aexit"):  # fmt: skip
        if not col.counters.get(k):
            col.inconclusive_because(f"deciding window never reached: {k}")
