"""C08 -- checkpoint discipline: blocking primitives always check cancellation and yield.

The (operation x completes-without-waiting state x loop configuration) matrix is finite and
is enumerated completely on every run.  Per cell three monitors:

 (i)   yield:   a marker queued with loop.call_soon immediately before the call must have
                run by the time the call returns;
 (ii)  cancel:  called inside a cancelled scope the operation must raise the cancellation
                exception (observed as cancelled_caught and the statement after the call not
                being reached).  "A cancelled scope" is enumerated in every shape a caller can
                meet (CANCEL_CTXS): plain cancel(), a scope that is shielded AND cancelled,
                a cancelled parent around an un-cancelled scope, an already expired deadline
                (with and without shield), shield switched on after cancel();
 (iii) effect:  after (ii) the object must be unchanged (nothing acquired, sent, consumed,
                started; Condition.wait keeps the lock and registers no waiter).

Exempt exactly: fast_acquire=True and the synchronous *_nowait / close calls.  Every
anyio.itertools function is traversed over sync-empty / sync-singleton / sync-longer /
async-yields-nothing sources: the traversal must pass a yield and, in a cancelled scope,
raise.  States in which the operation must really wait belong to C03.
"""

from __future__ import annotations

import asyncio
import itertools as I
import random

from ..collect import sig_of
from ..loops import run

PROPERTY = "C08"
LEVEL = "exploration"
RULE = (
    "cells = operation x pre-state x half (yield | cancelled-scope shape (6) + effect) x loop config "
    "(asyncio, asyncio+eager task factory, uvloop); the whole table is enumerated on every "
    "run (exhaustive over the declared table; thorough adds seeded parameter/pre-state "
    "variation: semaphore values, limiter totals, buffer sizes, itertools parameters and "
    "input lengths). Non-trivial = every cell (each asserts a distinct operation/state); "
    "distinct = distinct (cell name, parameters, half, config)."
)
ASSUMPTIONS = [
    "a callback queued with call_soon before the call runs iff the call yielded to the loop",
    "user callbacks passed to itertools/reduce are not themselves checkpoints (worst case)",
]
SHARD_TIMEOUT = {"quick": 300, "thorough": 900}
CONFIGS = ["real", "real_eager", "real_uvloop"]


async def _agen_empty():  # noqa: ANN202
    return
    yield  # pragma: no cover


def _lift(f):  # noqa: ANN001, ANN202
    async def g(*a):  # noqa: ANN002, ANN202
        return f(*a)

    return g


# ---------------------------------------------------------------------------------------
# primitive cells: each returns (op coroutine factory, effect probe, cleanup)
# ---------------------------------------------------------------------------------------
def primitive_cells(rng: random.Random | None):  # noqa: ANN201
    """yield (name, params, builder) -- builder(tg) -> (op, effect, needs_thread)"""
    import anyio
    from anyio import lowlevel

    def simple(name, mk):  # noqa: ANN001, ANN202
        async def build(tg):  # noqa: ANN001, ANN202
            return (mk, lambda: None)

        return (name, {}, build)

    yield simple("sleep(0)", lambda: anyio.sleep(0))
    yield simple("sleep(-1)", lambda: anyio.sleep(-1))
    yield simple("sleep_until(past)", lambda: anyio.sleep_until(anyio.current_time() - 1))
    yield simple("lowlevel.checkpoint", lambda: lowlevel.checkpoint())

    async def b_event(tg):  # noqa: ANN001, ANN202
        ev = anyio.Event()
        ev.set()
        return (lambda: ev.wait(), lambda: None)

    yield ("Event.wait[set]", {}, b_event)

    # primitives created while NO event loop is running are adapter objects that bind to the
    # backend on first use; the checkpoint discipline is the same for them
    def outside(factory):  # noqa: ANN001, ANN202
        import threading

        box: list = []
        t = threading.Thread(target=lambda: box.append(factory()))
        t.start()
        t.join()
        return box[0]

    for where in ("outside", "inside"):

        async def b_event_adapter(tg, where=where):  # noqa: ANN001, ANN202
            def mk():  # noqa: ANN202
                e = anyio.Event()
                if where == "outside":
                    e.set()

                return e

            ev = outside(mk)
            if where == "inside":
                ev.set()

            return (lambda: ev.wait(), lambda: None)

        yield ("Event.wait[set; created outside a loop]", {"set": where}, b_event_adapter)

    async def b_lock_adapter(tg):  # noqa: ANN001, ANN202
        lock = outside(anyio.Lock)

        async def op():  # noqa: ANN202
            await lock.acquire()
            lock.release()

        return (op, lambda: "lock left held" if lock.locked() else None)

    yield ("Lock.acquire[uncontended; created outside a loop]", {}, b_lock_adapter)

    async def b_sem_adapter(tg):  # noqa: ANN001, ANN202
        sem = outside(lambda: anyio.Semaphore(1))

        async def op():  # noqa: ANN202
            await sem.acquire()
            sem.release()

        return (op, lambda: f"semaphore value {sem.value} != 1" if sem.value != 1 else None)

    yield ("Semaphore.acquire[value>0; created outside a loop]", {}, b_sem_adapter)

    async def b_lim_adapter(tg):  # noqa: ANN001, ANN202
        lim = outside(lambda: anyio.CapacityLimiter(1))

        async def op():  # noqa: ANN202
            await lim.acquire()
            lim.release()

        return (op, lambda: f"{lim.borrowed_tokens} tokens borrowed" if lim.borrowed_tokens else None)

    yield ("CapacityLimiter.acquire[free token; created outside a loop]", {}, b_lim_adapter)

    async def b_cond_adapter(tg):  # noqa: ANN001, ANN202
        cond = outside(anyio.Condition)

        async def op():  # noqa: ANN202
            async with cond:
                pass

        return (op, lambda: "condition lock left held" if cond.locked() else None)

    yield ("Condition.async-with[uncontended; created outside a loop]", {}, b_cond_adapter)

    for via in ("acquire", "async-with"):

        async def b_lock(tg, via=via):  # noqa: ANN001, ANN202
            lock = anyio.Lock()

            async def op():  # noqa: ANN202
                if via == "acquire":
                    await lock.acquire()
                    lock.release()
                else:
                    async with lock:
                        pass

            def eff():  # noqa: ANN202
                return "lock left held" if lock.locked() else None

            return (op, eff)

        yield (f"Lock.{via}[uncontended]", {}, b_lock)

        async def b_cond_acq(tg, via=via):  # noqa: ANN001, ANN202
            cond = anyio.Condition()

            async def op():  # noqa: ANN202
                if via == "acquire":
                    await cond.acquire()
                    cond.release()
                else:
                    async with cond:
                        pass

            return (op, lambda: "condition lock left held" if cond.locked() else None)

        yield (f"Condition.{via}[uncontended]", {}, b_cond_acq)

    values = [1, 2, 3] + ([rng.randint(4, 9)] if rng else [])
    for v in values:
        for via in ("acquire", "async-with"):

            async def b_sem(tg, v=v, via=via):  # noqa: ANN001, ANN202
                sem = anyio.Semaphore(v)

                async def op():  # noqa: ANN202
                    if via == "acquire":
                        await sem.acquire()
                        sem.release()
                    else:
                        async with sem:
                            pass

                return (op, lambda: f"semaphore value {sem.value} != {v}" if sem.value != v else None)

            yield (f"Semaphore.{via}[value>0]", {"value": v}, b_sem)

    totals = [1, 2, "inf"] + ([rng.randint(3, 9)] if rng else [])
    for t in totals:
        for via in ("acquire", "acquire_on_behalf_of", "async-with"):

            async def b_lim(tg, t=t, via=via):  # noqa: ANN001, ANN202
                lim = anyio.CapacityLimiter(float("inf") if t == "inf" else t)

                async def op():  # noqa: ANN202
                    if via == "acquire":
                        await lim.acquire()
                        lim.release()
                    elif via == "acquire_on_behalf_of":
                        await lim.acquire_on_behalf_of("b")
                        lim.release_on_behalf_of("b")
                    else:
                        async with lim:
                            pass

                def eff():  # noqa: ANN202
                    return f"{lim.borrowed_tokens} tokens borrowed" if lim.borrowed_tokens else None

                return (op, eff)

            yield (f"CapacityLimiter.{via}[free token]", {"total": t}, b_lim)

    caps = [1, 2, "inf"] + ([rng.randint(3, 6)] if rng else [])
    for cap in caps:

        async def b_send_room(tg, cap=cap):  # noqa: ANN001, ANN202
            s, r = anyio.create_memory_object_stream(float("inf") if cap == "inf" else cap)

            def eff():  # noqa: ANN202
                used = s.statistics().current_buffer_used
                s.close()
                r.close()
                return f"item was buffered ({used})" if used else None

            return (lambda: s.send("x"), eff)

        yield ("memory.send[room in buffer]", {"cap": cap}, b_send_room)

        async def b_recv_items(tg, cap=cap):  # noqa: ANN001, ANN202
            s, r = anyio.create_memory_object_stream(float("inf") if cap == "inf" else cap)
            s.send_nowait("x")

            def eff():  # noqa: ANN202
                used = s.statistics().current_buffer_used
                s.close()
                r.close()
                return f"item was consumed (buffer {used})" if used != 1 else None

            return (lambda: r.receive(), eff)

        yield ("memory.receive[item buffered]", {"cap": cap}, b_recv_items)

    async def b_send_waiting_receiver(tg):  # noqa: ANN001, ANN202
        s, r = anyio.create_memory_object_stream(0)
        got: list = []

        async def receiver():  # noqa: ANN202
            got.append(await r.receive())

        tg.start_soon(receiver)
        for _ in range(3):
            await asyncio.sleep(0)

        def eff():  # noqa: ANN202
            w = s.statistics().tasks_waiting_receive
            return f"item was delivered {got}" if got or w != 1 else None

        return (lambda: s.send("x"), eff)

    yield ("memory.send[receiver waiting]", {"cap": 0}, b_send_waiting_receiver)

    async def b_recv_waiting_sender(tg):  # noqa: ANN001, ANN202
        s, r = anyio.create_memory_object_stream(0)
        done: list = []

        async def sender():  # noqa: ANN202
            await s.send("x")
            done.append(1)

        tg.start_soon(sender)
        for _ in range(3):
            await asyncio.sleep(0)

        def eff():  # noqa: ANN202
            w = s.statistics().tasks_waiting_send
            return f"blocked sender's item was consumed (done={done})" if done or w != 1 else None

        return (lambda: r.receive(), eff)

    yield ("memory.receive[sender waiting]", {"cap": 0}, b_recv_waiting_sender)

    for how in ("wait", "await"):

        async def b_handle(tg, how=how):  # noqa: ANN001, ANN202
            async def child():  # noqa: ANN202
                return 7

            h = tg.start_soon(child)
            for _ in range(3):
                await asyncio.sleep(0)

            async def op():  # noqa: ANN202
                if how == "wait":
                    await h.wait()
                elif (await h) != 7:
                    raise AssertionError("wrong handle value")

            return (op, lambda: None)

        yield (f"TaskHandle.{how}[finished]", {}, b_handle)

        async def b_future(tg, how=how):  # noqa: ANN001, ANN202
            f = anyio.Future()
            f.return_value = 5

            async def op():  # noqa: ANN202
                if how == "wait":
                    await f.wait()
                elif (await f) != 5:
                    raise AssertionError("wrong future value")

            return (op, lambda: None)

        if hasattr(anyio, "Future"):
            yield (f"Future.{how}[finished]", {}, b_future)

    async def b_thread(tg):  # noqa: ANN001, ANN202
        ran: list = []

        def eff():  # noqa: ANN202
            return "thread function ran" if ran else None

        return (lambda: anyio.to_thread.run_sync(ran.append, 1), eff)

    yield ("to_thread.run_sync", {}, b_thread)

    async def b_reduce_empty(tg):  # noqa: ANN001, ANN202
        from anyio.functools import reduce

        calls: list = []

        async def f(a, b):  # noqa: ANN001, ANN202
            calls.append(1)
            return a + b

        return (lambda: reduce(f, [], 5), lambda: "reducer called" if calls else None)

    yield ("functools.reduce[empty + initial]", {}, b_reduce_empty)

    async def b_reduce_single(tg):  # noqa: ANN001, ANN202
        from anyio.functools import reduce

        async def f(a, b):  # noqa: ANN001, ANN202
            return a + b

        return (lambda: reduce(f, [3]), lambda: None)

    yield ("functools.reduce[single element]", {}, b_reduce_single)

    async def b_reduce_async_empty(tg):  # noqa: ANN001, ANN202
        from anyio.functools import reduce

        async def f(a, b):  # noqa: ANN001, ANN202
            return a + b

        return (lambda: reduce(f, _agen_empty(), 5), lambda: None)

    yield ("functools.reduce[async empty + initial]", {}, b_reduce_async_empty)

    # the reducer IS called, and (worst case, see ASSUMPTIONS) never suspends
    for label, mk_src, init in (("two elements", lambda: [1, 2], None),
                                ("one element + initial", lambda: [1], 10),
                                ("async source, three elements", lambda: _agen_of([1, 2, 3]), None)):
        async def b_reduce_called(tg, mk_src=mk_src, init=init):  # noqa: ANN001, ANN202
            from anyio.functools import reduce

            calls: list = []

            async def f(a, b):  # noqa: ANN001, ANN202
                calls.append(1)
                return a + b

            if init is None:
                return (lambda: reduce(f, mk_src()), lambda: "reducer called" if calls else None)

            return (lambda: reduce(f, mk_src(), init), lambda: "reducer called" if calls else None)

        yield (f"functools.reduce[{label}; reducer never suspends]", {}, b_reduce_called)


async def _agen_of(xs):  # noqa: ANN001, ANN202
    for x in xs:
        yield x


F31_REDUCE = "reduce:checkpoint-left-to-the-reducer"


async def _fork(AI, source, how: str):  # noqa: ANN001, ANN202, N803
    """tee() applied to a tee iterator; the parent is advanced first"""
    if how == "sibling-exhausted":
        parent, sibling = AI.tee(source, 2)
        async for _ in sibling:
            pass
    else:
        (parent,) = AI.tee(source, 1)
        if how == "exhausted":
            async for _ in parent:
                pass
        elif how == "one-pulled":
            async for _ in parent:
                break

    (fork,) = AI.tee(parent, 1)
    return fork


def itertools_cells(rng: random.Random | None):  # noqa: ANN201
    """yield (name, params, maker(source_kind) -> async iterable, limit)"""
    from anyio import itertools as AI

    lens = {"sync-empty": 0, "sync-singleton": 1, "sync-longer": 3 + (rng.randint(0, 4) if rng else 0)}

    def src(kind, n=None):  # noqa: ANN001, ANN202
        if kind == "async-empty":
            return _agen_empty()

        return list(range(lens[kind] if n is None else n))

    def two(kind):  # noqa: ANN001, ANN202
        return src(kind), src(kind)

    T, F = _lift(lambda v: True), _lift(lambda v: False)  # noqa: N806
    ks = [0, 1, 2, 5] + ([rng.randint(1, 4)] if rng else [])
    cells = [
        ("accumulate", {}, lambda k: AI.accumulate(src(k))),
        ("accumulate", {"initial": 1}, lambda k: AI.accumulate(src(k), initial=1)),
        ("chain", {}, lambda k: AI.chain(*two(k))),
        ("chain", {"args": 0}, lambda k: AI.chain()),
        ("chain.from_iterable", {}, lambda k: AI.chain.from_iterable([src(k), src(k)])),
        ("chain.from_iterable", {"outer": "same-kind"},
         lambda k: AI.chain.from_iterable(_agen_empty() if k == "async-empty" else [src(k)])),
        ("compress", {"sel": "true"}, lambda k: AI.compress(src(k), [1] * 9)),
        ("compress", {"sel": "false"}, lambda k: AI.compress(src(k), [0] * 9)),
        ("compress", {"sel": "same-kind"}, lambda k: AI.compress(*two(k))),
        ("cycle", {}, lambda k: AI.cycle(src(k))),
        ("dropwhile", {"pred": "true"}, lambda k: AI.dropwhile(T, src(k))),
        ("dropwhile", {"pred": "false"}, lambda k: AI.dropwhile(F, src(k))),
        ("takewhile", {"pred": "true"}, lambda k: AI.takewhile(T, src(k))),
        ("takewhile", {"pred": "false"}, lambda k: AI.takewhile(F, src(k))),
        ("filterfalse", {"pred": "true"}, lambda k: AI.filterfalse(T, src(k))),
        ("filterfalse", {"pred": "false"}, lambda k: AI.filterfalse(F, src(k))),
        ("groupby", {}, lambda k: AI.groupby(src(k))),
        ("groupby", {"key": "const"}, lambda k: AI.groupby(src(k), _lift(lambda v: 0))),
        ("pairwise", {}, lambda k: AI.pairwise(src(k))),
        ("starmap", {}, lambda k: AI.starmap(_lift(lambda a: a),
                                             _agen_empty() if k == "async-empty"
                                             else [[x] for x in src(k)])),
        ("zip_longest", {}, lambda k: AI.zip_longest(*two(k))),
        ("zip_longest", {"args": 0}, lambda k: AI.zip_longest()),
        ("product", {}, lambda k: AI.product(*two(k))),
        ("product", {"args": 0}, lambda k: AI.product()),
        ("count", {}, lambda k: AI.count()),
        ("repeat", {"times": None}, lambda k: AI.repeat(1)),
        ("tee", {"n": 2}, lambda k: AI.tee(src(k), 2)),
        ("tee", {"n": 1}, lambda k: AI.tee(src(k), 1)),
        # forks of an existing tee iterator (prepared before the measured traversal)
        ("tee", {"fork": "of-exhausted-parent"}, lambda k: _fork(AI, src(k), "exhausted")),
        ("tee", {"fork": "mid-stream"}, lambda k: _fork(AI, src(k), "one-pulled")),
        ("tee", {"fork": "of-parent-whose-sibling-found-the-end"},
         lambda k: _fork(AI, src(k), "sibling-exhausted")),
        ("tee", {"fork": "fresh"}, lambda k: _fork(AI, src(k), "fresh")),
    ]
    for n in ks:
        cells += [
            ("batched", {"n": max(n, 1)}, lambda k, n=n: AI.batched(src(k), max(n, 1))),
            ("combinations", {"r": n}, lambda k, n=n: AI.combinations(src(k), n)),
            ("combinations_with_replacement", {"r": n},
             lambda k, n=n: AI.combinations_with_replacement(src(k), n)),
            ("permutations", {"r": n}, lambda k, n=n: AI.permutations(src(k), n)),
            ("product", {"repeat": min(n, 2)}, lambda k, n=n: AI.product(src(k), repeat=min(n, 2))),
            ("repeat", {"times": n}, lambda k, n=n: AI.repeat(1, n)),
            ("islice", {"stop": n}, lambda k, n=n: AI.islice(src(k), n)),
            ("islice", {"start": n, "stop": n}, lambda k, n=n: AI.islice(src(k), n, n)),
            ("islice", {"start": n, "stop": None}, lambda k, n=n: AI.islice(src(k), n, None)),
            ("islice", {"start": 0, "stop": 9, "step": n + 1},
             lambda k, n=n: AI.islice(src(k), 0, 9, n + 1)),
        ]

    cells.append(("permutations", {"r": None}, lambda k: AI.permutations(src(k))))
    yield from cells


ITER_SOURCES = ["sync-empty", "sync-singleton", "sync-longer", "async-empty"]
LIMIT = 4  # elements taken from infinite iterators



CANCEL_CTXS = ["plain", "shielded+cancelled", "parent-cancelled", "expired-deadline",
               "expired-deadline+shield", "shield-set-after-cancel"]


class _Ctx:
    """The ways a caller can find itself in a cancelled scope (all are 'cancelled' for C08)."""

    def __init__(self, kind: str) -> None:
        import anyio
        from anyio import CancelScope

        self.kind = kind
        self.inner = None
        if kind == "plain":
            self.scope = CancelScope()
        elif kind == "shielded+cancelled":
            self.scope = CancelScope(shield=True)
        elif kind == "parent-cancelled":
            self.scope = CancelScope()
            self.inner = CancelScope()
        elif kind == "expired-deadline":
            self.scope = anyio.move_on_after(0)
        elif kind == "expired-deadline+shield":
            self.scope = anyio.move_on_after(0, shield=True)
        elif kind == "shield-set-after-cancel":
            self.scope = CancelScope()
        else:  # pragma: no cover
            raise ValueError(kind)

    def __enter__(self):  # noqa: ANN204
        self.scope.__enter__()
        if self.kind in ("plain", "shielded+cancelled", "parent-cancelled", "shield-set-after-cancel"):
            self.scope.cancel()

        if self.kind == "shield-set-after-cancel":
            self.scope.shield = True

        if self.inner is not None:
            self.inner.__enter__()

        return self

    def __exit__(self, *exc):  # noqa: ANN002, ANN204
        if self.inner is not None:
            if self.inner.__exit__(*exc):
                # an un-cancelled inner scope must not absorb anything
                return self.scope.__exit__(None, None, None)

        return self.scope.__exit__(*exc)

    @property
    def cancelled_caught(self) -> bool:
        return self.scope.cancelled_caught


# ---------------------------------------------------------------------------------------
async def run_primitive(name, params, build, half, col, cfg) -> None:  # noqa: ANN001
    import anyio

    case = {"cell": name, "params": params, "half": half, "cfg": cfg}
    loop = asyncio.get_running_loop()
    viol = []
    try:
        with anyio.fail_after(10):
            async with anyio.create_task_group() as tg:
                op, effect = await build(tg)
                if half == "yield":
                    marker: list = []
                    loop.call_soon(marker.append, 1)
                    await op()
                    if not marker:
                        viol.append(("no-yield", {"cell": name}))
                else:
                    reached = []
                    mid: list = []
                    # what another task sees while the cancelled caller is suspended (if it
                    # suspends at all): the effect must not exist even transiently
                    loop.call_soon(lambda: mid.append(effect()))
                    with _Ctx(half.partition(":")[2]) as s:
                        await op()
                        reached.append(1)

                    if reached or not s.cancelled_caught:
                        viol.append(("no-cancellation-check", {"cell": name, "completed": bool(reached)}))

                    e = effect()
                    if e:
                        viol.append(("effect-performed-in-cancelled-scope", {"cell": name, "effect": e}))
                    elif any(mid):
                        viol.append(("effect-visible-to-other-tasks-before-the-cancellation-was-raised",
                                     {"cell": name, "effect": [m for m in mid if m][0]}))  # fmt: skip

                tg.cancel_scope.cancel()
    except TimeoutError:
        viol.append(("operation-did-not-complete", {"cell": name}))
    except BaseException as e:  # noqa: BLE001
        viol.append(("exc!", {"cell": name, "exc": repr(e)}))

    col.case(sig_of(case), True, sample=case)
    col.count("cells:primitive")
    col.add_to_set("operations", name)
    for clause, detail in viol:
        # F31: reduce() leaves the checkpoint to the reducer once it has called it
        mech = F31_REDUCE if name.startswith("functools.reduce[") and "reducer never suspends" in name and clause in (
            "no-yield", "no-cancellation-check", "effect-performed-in-cancelled-scope") else None
        col.violation(clause, detail, case, mech)


async def run_condition_wait(col, cfg, ctx="plain") -> None:  # noqa: ANN001
    """Condition.wait entered in a cancelled scope: raises, keeps the lock, no waiter."""
    import anyio

    case = {"cell": "Condition.wait[cancelled scope]", "params": {}, "half": "cancel:" + ctx,
            "cfg": cfg}  # fmt: skip
    viol = []
    try:
        with anyio.fail_after(10):
            cond = anyio.Condition()
            await cond.acquire()
            reached = []
            mid: list = []

            def sample() -> None:
                # what another task would see while the cancelled caller is suspended (if
                # it suspends at all): the lock given up, a waiter registered
                st_ = cond.statistics()
                if not cond.locked():
                    mid.append("lock released")
                elif st_.tasks_waiting:
                    mid.append("a waiter was registered")

            asyncio.get_running_loop().call_soon(sample)
            with _Ctx(ctx) as s:
                await cond.wait()
                reached.append(1)

            if reached or not s.cancelled_caught:
                viol.append(("no-cancellation-check", {"cell": case["cell"]}))

            st = cond.statistics()
            me = id(asyncio.current_task())
            if st.lock_statistics.owner is None or st.lock_statistics.owner.id != me:
                viol.append(("effect-performed-in-cancelled-scope",
                             {"cell": case["cell"], "effect": "lock no longer held by the caller"}))  # fmt: skip
            else:
                cond.release()

            if st.tasks_waiting:
                viol.append(("effect-performed-in-cancelled-scope",
                             {"cell": case["cell"], "effect": "a waiter was registered"}))  # fmt: skip
            elif mid and not viol:
                viol.append(("effect-visible-to-other-tasks-before-the-cancellation-was-raised",
                             {"cell": case["cell"], "effect": mid[0]}))  # fmt: skip
    except TimeoutError:
        viol.append(("operation-did-not-complete", {"cell": case["cell"]}))
    except BaseException as e:  # noqa: BLE001
        viol.append(("exc!", {"cell": case["cell"], "exc": repr(e)}))

    col.case(sig_of(case), True, sample=case)
    col.count("cells:primitive")
    col.add_to_set("operations", case["cell"])
    for clause, detail in viol:
        col.violation(clause, detail, case)


async def run_empty_taskgroup(col, cfg) -> None:  # noqa: ANN001
    import anyio

    case = {"cell": "create_task_group[empty block]", "params": {}, "half": "yield", "cfg": cfg}
    loop = asyncio.get_running_loop()
    marker: list = []
    loop.call_soon(marker.append, 1)
    async with anyio.create_task_group():
        pass

    col.case(sig_of(case), True, sample=case)
    col.count("cells:primitive")
    col.add_to_set("operations", case["cell"])
    if not marker:
        col.violation("no-yield", {"cell": case["cell"]}, case)


async def _traverse(obj) -> int:  # noqa: ANN001
    n = 0
    its = obj if isinstance(obj, tuple) else (obj,)
    for it in its:
        k = 0
        async for _ in it:
            n += 1
            k += 1
            if k >= LIMIT:
                break

    return n


async def run_iter(name, params, mk, kind, half, col, cfg) -> None:  # noqa: ANN001
    import anyio

    case = {"cell": "itertools." + name, "params": params, "source": kind, "half": half, "cfg": cfg}
    loop = asyncio.get_running_loop()
    viol = []
    try:
        with anyio.fail_after(10):
            obj = mk(kind)
            if asyncio.iscoroutine(obj):
                obj = await obj  # preparation outside the measured window

            if half == "yield":
                marker: list = []
                loop.call_soon(marker.append, 1)
                n = await _traverse(obj)
                if not marker:
                    viol.append(("no-yield", {"cell": case["cell"], "yielded": n}))
            else:
                reached = []
                with _Ctx(half.partition(":")[2]) as s:
                    await _traverse(obj)
                    reached.append(1)

                if reached or not s.cancelled_caught:
                    viol.append(("no-cancellation-check", {"cell": case["cell"]}))
    except TimeoutError:
        viol.append(("operation-did-not-complete", {"cell": case["cell"]}))
    except BaseException as e:  # noqa: BLE001
        viol.append(("exc!", {"cell": case["cell"], "exc": repr(e)}))

    col.case(sig_of(case), True, sample=case)
    col.count("cells:itertools")
    col.add_to_set("itertools_functions", name)
    for clause, detail in viol:
        col.violation(clause, detail, case)


def shards(tier: str, seed: int) -> list[dict]:
    out = [{"tier": tier, "seed": seed, "cfg": cfg, "variant": 0} for cfg in CONFIGS]
    if tier == "thorough":
        out += [{"tier": tier, "seed": seed, "cfg": cfg, "variant": v}
                for cfg in CONFIGS for v in range(1, 5)]  # fmt: skip

    return out


def run_shard(desc: dict, col) -> None:  # noqa: ANN001
    cfg = desc["cfg"]
    rng = random.Random(desc["seed"] * 8089 + desc["variant"]) if desc["variant"] else None

    async def main() -> None:
        halves = ["yield"] + ["cancel:" + k for k in CANCEL_CTXS]
        for name, params, build in primitive_cells(rng):
            for half in halves:
                await run_primitive(name, params, build, half, col, cfg)

        for ctx in CANCEL_CTXS:
            await run_condition_wait(col, cfg, ctx)

        await run_empty_taskgroup(col, cfg)
        for name, params, mk in itertools_cells(rng):
            for kind in ITER_SOURCES:
                for half in halves:
                    await run_iter(name, params, mk, kind, half, col, cfg)

    run(main, config=cfg)


def replay(case: dict, col) -> None:  # noqa: ANN001
    # a replay re-runs the whole (small) table of that configuration and reports the cell
    run_shard({"tier": "quick", "seed": 0, "cfg": case["cfg"], "variant": 0}, col)


def finish(col, tier: str) -> None:  # noqa: ANN001
    fns = col.sets.get("itertools_functions", set())
    need = {"accumulate", "batched", "chain", "chain.from_iterable", "combinations",
            "combinations_with_replacement", "compress", "count", "cycle", "dropwhile",
            "filterfalse", "groupby", "islice", "pairwise", "permutations", "product", "repeat",
            "starmap", "tee", "takewhile", "zip_longest"}  # fmt: skip
    if need - set(fns):
        col.inconclusive_because(f"itertools functions not traversed: {sorted(need - set(fns))}")

    if len(col.sets.get("operations", ())) < 25:
        col.inconclusive_because("primitive table incomplete")


def extra_coverage(col, tier: str) -> dict:  # noqa: ANN001
    return {"exhaustive": True,
            "exhaustive_note": "the declared operation x state x half x config table is "
            "enumerated completely every run"}  # fmt: skip


del I
