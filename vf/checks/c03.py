"""C03 -- level-triggered cancellation: nothing stays blocked in a cancelled scope.

Liveness restated as bounded progress on the virtual loop (vf/tree.py): (a) Deadlock while a
task sits in a blocking operation whose scope is effectively cancelled per the shadow model;
(b) an interrupted operation ends more than B=4 cycles after max(op start, instant the scope
became effectively cancelled) (measured maximum is recorded); (c) an operation entered after
that instant completes normally although what it waits for was not available; (d) BusyLoop.
"""

from __future__ import annotations

from ..collect import guarded

import itertools

from .. import treecheck, treefam

PROPERTY = "C03"
LEVEL = "exploration"
RULE = (
    "case = generated task-tree / cancel-scope program (see vf/treegen.py profile c03: "
    "checkpoints, sleeps, sleep_forever, event waits, nested scopes with shields and "
    "deadlines, task groups, spawn, cancel of any scope/group/handle, shield toggles, raise, "
    "shielded cleanup, catch-cancel-then-continue, handle waits, start() children) + agents "
    "(cancel/shield/deadline/set at a cycle or virtual instant, before|after the tasks' "
    "wake-ups) on {stock, eager}. Non-trivial = a cancel hit a task blocked in an operation, or a caught cancellation was followed by further blocking; distinct = distinct trace signature."
)
ASSUMPTIONS = [
    "asyncio FIFO ready queue (never reordered); VLoop virtual time",
    "generated code never swallows a cancellation (it re-raises, or raises from cleanup)",
    "independent shadow scope model kept in lock-step by the interpreter (vf/shadow.py); "
    "same-instant / in-flight ties accept both coherent outcomes and are counted",
]
SHARD_TIMEOUT = {"quick": 300, "thorough": 1500}


def all_cases(tier: str, seed: int):  # noqa: ANN201
    yield from treecheck.cases("c03", tier, seed, 4000, 60000, extra=lambda: itertools.chain(treefam.spawn_into_cancelled(), treefam.scope_chains(), treefam.swallow_and_reblock(), treefam.start_into_cancelled(),
                                                             treefam.ninf_deadlines(), treefam.late_shield()))


def shards(tier: str, seed: int) -> list[dict]:
    return treecheck.shards(tier, seed)


def run_shard(desc: dict, col) -> None:  # noqa: ANN001
    for i, case in enumerate(all_cases(desc["tier"], desc["seed"])):
        if i % desc["of"] == desc["shard"]:
            guarded(col, case, treecheck.judge, PROPERTY, case, col)


def replay(case: dict, col) -> None:  # noqa: ANN001
    guarded(col, case, treecheck.judge, PROPERTY, case, col)


def finish(col, tier: str) -> None:  # noqa: ANN001
    for k in ['window:cancel_while_blocked:forever', 'window:cancel_caught_then_continued', 'window:cancel_before_entry_or_after_exit', 'window:cancel_while_behind_shield', 'window:spawn_after_group_cancelled']:
        if not col.counters.get(k):
            col.inconclusive_because(f"deciding window never reached: {k}")
