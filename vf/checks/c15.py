"""C15 -- BlockingPortal: every cross-thread call is run once, answered and joined.

Real threads: a portal started with start_blocking_portal() (own thread + loop; asyncio and
uvloop), 1-6 caller threads each issuing a seeded list of portal.call / start_task_soon /
start_task invocations (sync callables, coroutines, tasks that block on harness gates, fail,
or call started()), a conductor thread that opens gates in a seeded permutation, cancels
futures and stops the portal; sys.monitoring delay injection on the portal code paths.

A thread-safe monitor with global sequence numbers records call_issued / exec_start /
exec_end / future outcomes / stop / exit events.  Oracle (offline, per case): exactly-once
execution of every accepted call; result, exception and started() value routed to the right
caller by object identity; cancelling future f cancels precisely its task; calls issued after
stop() completed are refused with RuntimeError; leaving the portal context returns only
after every accepted task has ended (finished, or cancelled when cancel_remaining) and
leaves no future unresolved and no portal thread alive.
"""

from __future__ import annotations

import random
import threading
import time

from .. import delay
from ..collect import guarded, sig_of

PROPERTY = "C15"
LEVEL = "exploration"
RULE = (
    "case = (loop config asyncio|uvloop, 1-6 caller threads x 1-8 calls of kinds sync call, "
    "coroutine call (returning / raising), gated task via start_task_soon (collected later "
    "or cancelled through its future), start_task with started() handshake; exit mode: "
    "normal | explicit stop() mid-way | exception leaving the context (cancel_remaining); "
    "seeded gate permutation and delays; seeded delay injection). Non-trivial = tasks were "
    "still pending when the portal was stopped / left, or a future was cancelled while its "
    "task ran; distinct = distinct (config, order of monitor events)."
)
ASSUMPTIONS = [
    "real time; bounded waits: a wait that times out AFTER the portal context has exited is "
    "a violation (orphaned call), before that it is INCONCLUSIVE",
]
SHARD_TIMEOUT = {"quick": 400, "thorough": 1700}
NSHARDS = 16
CALL_KINDS = ["sync", "sync", "coro", "coro_raise", "gated", "gated", "gated_cancel", "start_task",
              "start_task_fail", "coro_native_cancel", "quick_cancel", "quick_cancel", "quick_cancel"]  # fmt: skip


F14_KEY = "portal:call-racing-with-loop-shutdown-hangs"


class Boom(Exception):
    pass


class Leave(Exception):
    pass


class LeaveBase(BaseException):
    """a non-Exception way out of the portal's body (KeyboardInterrupt, SystemExit, a
    cancellation ...): remaining tasks are cancelled just the same"""


class FalsyValue:
    """return / started() values whose truth value is False are values like any other"""

    def __bool__(self) -> bool:
        return False

    def __len__(self) -> int:
        return 0


class Mon:
    def __init__(self) -> None:
        self.lock = threading.Lock()
        self.seq = 0
        self.log: list[tuple] = []
        self.first: dict = {}
        self.count: dict = {}

    def ev(self, kind: str, cid=None, *payload) -> int:  # noqa: ANN001, ANN002
        with self.lock:
            self.seq += 1
            self.log.append((self.seq, kind, cid, *payload))
            self.first.setdefault((kind, cid), self.seq)
            self.count[(kind, cid)] = self.count.get((kind, cid), 0) + 1
            return self.seq


def gen_case(rng: random.Random, cfg: str) -> dict:
    nthreads = rng.randint(1, 6)
    threads = []
    cid = 0
    for _ in range(nthreads):
        calls = []
        for _ in range(rng.randint(1, 8)):
            calls.append({"cid": cid, "kind": rng.choice(CALL_KINDS), "work": rng.randint(0, 3),
                          "pause": rng.choice([0, 0, 0.0005, 0.001]),
                          "pause2": rng.choice([0, 0.0001, 0.0002, 0.0004, 0.0008])})  # fmt: skip
            cid += 1

        threads.append(calls)

    gated = [c["cid"] for t in threads for c in t if c["kind"].startswith("gated") or
             c["kind"].startswith("start_task")]  # fmt: skip
    rng.shuffle(gated)
    return {"cfg": cfg, "threads": threads, "gate_order": gated,
            "exit": rng.choice(["normal", "normal", "stop_midway", "stop_cancel", "exception",
                                "stop_then_cancel"]),
            "stop_after": rng.randint(0, max(0, len(gated))),
            "delays": [rng.choice([0, 0.0005, 0.001, 0.002]) for _ in range(len(gated) + 4)],
            "inject_seed": rng.randrange(1 << 30),
            "leave_with": rng.choice(["Exception", "BaseException"]),
            "foreign_workers": [i for i in range(nthreads) if rng.random() < 0.25]}  # fmt: skip


def execute(case: dict) -> dict:
    import anyio
    from anyio import from_thread
    from anyio.lowlevel import checkpoint

    from anyio._backends import _asyncio as A

    viol: list = []
    out: dict = {"viol": viol, "windows": {}, "nontrivial": False, "inconclusive": None}

    def window(name: str, n: int = 1) -> None:
        out["windows"][name] = out["windows"].get(name, 0) + n

    mon = Mon()
    all_calls = [c for t in case["threads"] for c in t]
    gates = {c["cid"]: threading.Event() for c in all_calls}
    values = {c["cid"]: FalsyValue() if c["cid"] % 3 == 2 else ("val", c["cid"], object())
              for c in all_calls}  # fmt: skip
    started_vals = {c["cid"]: FalsyValue() if c["cid"] % 3 == 1 else ("started", c["cid"], object())
                    for c in all_calls}  # fmt: skip
    # (exceptions stay truthy here: concurrent.futures.Future itself tests `if self._exception`
    #  and hands a falsy exception object back as a None result - a CPython property of the
    #  futures the portal API is specified to return, nothing AnyIO decides)
    booms = {c["cid"]: Boom(c["cid"]) for c in all_calls}
    got: dict = {}  # cid -> what the caller observed
    futures: dict = {}
    delay.install(
        [from_thread.BlockingPortal._call_func, from_thread.BlockingPortal._spawn_task_from_thread,
         from_thread.BlockingPortal.start_task_soon, from_thread.BlockingPortal.start_task,
         from_thread.BlockingPortal.stop, from_thread.start_blocking_portal,
         A.AsyncIOBackend.run_sync_from_thread],
        seed=case["inject_seed"], prob=0.2,
    )  # fmt: skip

    def sync_fn(cid: int):  # noqa: ANN202
        mon.ev("exec_start", cid)
        mon.ev("exec_end", cid, "returned")
        return values[cid]

    async def coro_fn(cid: int, work: int, fail: bool):  # noqa: ANN202
        mon.ev("exec_start", cid)
        try:
            for _ in range(work):
                await checkpoint()

            if fail:
                mon.ev("exec_end", cid, "raised")
                raise booms[cid]

            mon.ev("exec_end", cid, "returned")
            return values[cid]
        except anyio.get_cancelled_exc_class():
            mon.ev("exec_end", cid, "cancelled")
            raise

    async def native_cancel_fn(cid: int, work: int):  # noqa: ANN202
        """ends with a NATIVE asyncio cancellation that concerns this call only (it awaits
        a future its owner cancelled): the caller gets CancelledError, nobody else notices"""
        import asyncio

        mon.ev("exec_start", cid)
        try:
            for _ in range(work):
                await checkpoint()
        except anyio.get_cancelled_exc_class():
            mon.ev("exec_end", cid, "cancelled")
            raise

        fut = asyncio.get_running_loop().create_future()
        fut.cancel()
        mon.ev("exec_end", cid, "native-cancelled")
        await fut

    async def gated_fn(cid: int, work: int, *, task_status=None, fail_before=False):  # noqa: ANN001, ANN202
        mon.ev("exec_start", cid)
        try:
            for _ in range(work):
                await checkpoint()

            if fail_before:
                mon.ev("exec_end", cid, "raised")
                raise booms[cid]

            if task_status is not None:
                mon.ev("started_called", cid)
                task_status.started(started_vals[cid])

            while not gates[cid].is_set():
                await anyio.sleep(0.0005)

            mon.ev("exec_end", cid, "returned")
            return values[cid]
        except anyio.get_cancelled_exc_class():
            mon.ev("exec_end", cid, "cancelled")
            raise

    state = {"portal": None, "exited": False}

    def caller_thread(calls: list) -> None:
        portal = state["portal"]
        for c in calls:
            cid, kind = c["cid"], c["kind"]
            if c["pause"]:
                time.sleep(c["pause"])

            mon.ev("call_issued", cid)
            rec: dict = {}
            got[cid] = rec
            try:
                if kind == "sync":
                    rec["value"] = portal.call(sync_fn, cid)
                elif kind == "coro":
                    rec["value"] = portal.call(coro_fn, cid, c["work"], False)
                elif kind == "coro_raise":
                    rec["value"] = portal.call(coro_fn, cid, c["work"], True)
                elif kind == "coro_native_cancel":
                    window("call_ending_with_native_cancellation")
                    rec["value"] = portal.call(native_cancel_fn, cid, c["work"])
                elif kind in ("gated", "gated_cancel"):
                    futures[cid] = portal.start_task_soon(gated_fn, cid, c["work"])
                    rec["future"] = True
                elif kind == "quick_cancel":
                    # a task that ends by itself after 0-3 checkpoints, its future cancelled
                    # by the caller a moment later - now and then at the very instant at
                    # which the portal is completing it
                    f = portal.start_task_soon(coro_fn, cid, c["work"], False)
                    futures[cid] = f
                    rec["future"] = True
                    time.sleep(c.get("pause2", 0))
                    mon.ev("future_cancel", cid)
                    if f.cancel():
                        window("future_cancelled_around_task_completion")
                elif kind == "start_task":
                    f, v = portal.start_task(gated_fn, cid, c["work"])
                    futures[cid] = f
                    rec["future"] = True
                    rec["start_value"] = v
                elif kind == "start_task_fail":
                    f, v = portal.start_task(lambda cid=cid, work=c["work"], *, task_status:
                                             gated_fn(cid, work, task_status=task_status,
                                                      fail_before=True))  # fmt: skip
                    rec["start_value"] = v
            except RuntimeError as e:
                rec["refused"] = str(e)[:60]
            except Boom as e:
                rec["boom"] = e
            except BaseException as e:  # noqa: BLE001
                rec["exc"] = repr(e)

            mon.ev("call_done", cid)

    def conductor() -> None:
        portal = state["portal"]
        di = iter(case["delays"] + [0.001] * 100)
        time.sleep(0.002)
        for k, cid in enumerate(case["gate_order"]):
            if k == case["stop_after"] and case["exit"] in ("stop_midway", "stop_cancel",
                                                            "stop_then_cancel"):
                mon.ev("stop_calling")
                try:
                    portal.call(portal.stop, case["exit"] == "stop_cancel")
                except RuntimeError:
                    pass

                mon.ev("stop_done")
                if case["exit"] == "stop_then_cancel":
                    # graceful stop first, then "now force it": the second stop can only
                    # come from the loop side (a task started before the first stop).  The
                    # gates stay shut until every running task has ended: bounded progress.
                    time.sleep(next(di))
                    running = [c["cid"] for c in all_calls
                               if ("exec_start", c["cid"]) in mon.first
                               and ("exec_end", c["cid"]) not in mon.first]  # fmt: skip
                    if running:
                        window("second_stop_with_cancel_remaining_while_tasks_running")
                        out["nontrivial"] = True

                    mon.ev("stop2_requested")
                    second_stop.set()
                    t0 = time.monotonic()
                    while ("stop2_done", None) not in mon.first and time.monotonic() - t0 < 5:
                        time.sleep(0.0005)

                    tick0 = hb2["n"]
                    while time.monotonic() - t0 < 5 and any(
                        ("exec_end", cid) not in mon.first for cid in running
                    ):
                        time.sleep(0.0005)

                    left = [cid for cid in running if ("exec_end", cid) not in mon.first]
                    if left and ("stop2_done", None) in mon.first:
                        mon.ev("stop2_did_not_cancel", None, left, hb2["n"] - tick0 > 50)

            time.sleep(next(di))
            f = futures.get(cid)
            kind = next(c["kind"] for c in all_calls if c["cid"] == cid)
            if kind == "gated_cancel" and f is not None:
                if ("exec_start", cid) in mon.first and ("exec_end", cid) not in mon.first:
                    window("future_cancelled_while_task_running")
                    out["nontrivial"] = True

                mon.ev("future_cancel", cid)
                was_running = ("exec_start", cid) in mon.first and ("exec_end", cid) not in mon.first
                hb0 = hb["n"]
                f.cancel()
                if was_running:
                    # bounded progress: the gate stays shut until the task has ended; a
                    # task that is still running after 5 s although the loop answers a
                    # round trip was not cancelled
                    t0 = time.monotonic()
                    while ("exec_end", cid) not in mon.first and time.monotonic() - t0 < 5:
                        time.sleep(0.0005)

                    if ("exec_end", cid) not in mon.first:
                        # was the loop alive meanwhile? (heartbeat task of the harness)
                        alive = hb["n"] - hb0 > 50
                        mon.ev("cancel_not_delivered", cid, alive)

            gates[cid].set()
            mon.ev("gate_open", cid)

        for g in gates.values():
            g.set()

        hb_stop.set()

    hb = {"n": 0}
    hb_stop = threading.Event()

    async def heartbeat() -> None:
        while not hb_stop.is_set():
            hb["n"] += 1
            await anyio.sleep(0.001)

    hb2 = {"n": 0}
    second_stop = threading.Event()

    async def stopper() -> None:
        """started before anything else; on request stops the portal a second time with
        cancel_remaining=True, then keeps ticking (shielded) to prove the loop is alive"""
        with anyio.CancelScope(shield=True):
            while not second_stop.is_set() and not hb_stop.is_set():
                await anyio.sleep(0.0005)

            if second_stop.is_set():
                await state["portal"].stop(True)
                mon.ev("stop2_done")
                while not hb_stop.is_set():
                    hb2["n"] += 1
                    await anyio.sleep(0.0005)

    threads: list = []
    portal_thread_names: list = []
    try:
        opts = {"use_uvloop": True} if case["cfg"] == "uvloop" else {}
        try:
            with from_thread.start_blocking_portal("asyncio", opts) as portal:
                state["portal"] = portal
                portal.start_task_soon(heartbeat)
                if case["exit"] == "stop_then_cancel":
                    portal.start_task_soon(stopper)

                portal_thread_names = [t for t in threading.enumerate() if "portal" in t.name]
                def foreign_worker(calls: list) -> None:
                    """the caller is an AnyIO worker thread of ANOTHER event loop: it has a
                    thread-local loop token of its own, which must not be taken for the
                    portal's"""
                    import anyio as _anyio

                    async def other_loop_main() -> None:
                        await _anyio.to_thread.run_sync(caller_thread, calls)

                    window("caller_is_worker_thread_of_another_loop")
                    _anyio.run(other_loop_main)

                foreign = set(case.get("foreign_workers", ()))
                threads = [threading.Thread(target=foreign_worker if i in foreign else caller_thread,
                                            args=(calls,), daemon=True)
                           for i, calls in enumerate(case["threads"])]  # fmt: skip
                cond = threading.Thread(target=conductor, daemon=True)
                for t in threads:
                    t.start()

                if case["exit"] == "exception":
                    # leave while callers/tasks are still busy: remaining tasks are cancelled
                    hb_stop.set()
                    time.sleep(0.003)
                    pending = [cid for cid in futures if not futures[cid].done()]
                    if pending:
                        window("left_with_pending_tasks:cancel_remaining")
                        out["nontrivial"] = True

                    mon.ev("exit_begin", None, "exception")

                    def unstick() -> None:
                        # bounded progress: an exit by exception cancels what is left; if
                        # it has not come back after 6 s it is waiting for the tasks (whose
                        # gates are shut) - note that, then open the gates to get out
                        t0 = time.monotonic()
                        while ("exit_end", None) not in mon.first and time.monotonic() - t0 < 6:
                            time.sleep(0.005)

                        if ("exit_end", None) not in mon.first:
                            mon.ev("exit_stuck")
                            for g in gates.values():
                                g.set()

                    threading.Thread(target=unstick, daemon=True).start()
                    raise LeaveBase if case.get("leave_with") == "BaseException" else Leave

                cond.start()
                if case["exit"] == "normal" and random.Random(case["inject_seed"]).random() < 0.5:
                    # leave early: the exit must wait for the gated tasks (the conductor
                    # keeps opening gates from its own thread meanwhile)
                    time.sleep(0.002)
                else:
                    t_end = time.monotonic() + 8
                    for t in threads:
                        t.join(max(0.05, t_end - time.monotonic()))

                pending = [cid for cid in list(futures) if not futures[cid].done()]
                if pending:
                    window("left_with_pending_tasks:wait")
                    out["nontrivial"] = True

                mon.ev("exit_begin", None, case["exit"])
        except (Leave, LeaveBase):
            pass

        mon.ev("exit_end")
        state["exited"] = True
    except BaseException as e:  # noqa: BLE001
        viol.append(("exception-escaped-portal-context", {"exc": repr(e)}))
        mon.ev("exit_end")
        state["exited"] = True
    finally:
        for g in gates.values():
            g.set()

        hb_stop.set()

    exit_end = mon.first.get(("exit_end", None))
    stuck = 0
    t_end = time.monotonic() + 3
    for t in threads:
        t.join(max(0.05, t_end - time.monotonic()))
        if t.is_alive():
            stuck += 1

    hung_calls = [c["cid"] for c in all_calls
                  if ("call_issued", c["cid"]) in mon.first and ("call_done", c["cid"]) not in mon.first]  # fmt: skip
    if stuck or hung_calls:
        never_ran = all(mon.count.get(("exec_start", cid), 0) == 0 for cid in hung_calls)
        portal_gone = all(not t.is_alive() for t in portal_thread_names)
        # known finding F14: a call that raced with the shutdown of the portal's loop was
        # scheduled with call_soon_threadsafe() but the loop ended before running it; the
        # caller blocks in Future.result() forever.  Mechanism: the portal context has
        # exited, its thread is gone, the hung call never started executing.
        # ... or (same mechanism through another door) the caller is inside Future.cancel():
        # the future's done-callback marshals scope.cancel() into the portal's loop with
        # from_thread.run_sync() and waits for it - the call itself had already ended
        kind_of = {c["cid"]: c["kind"] for c in all_calls}
        in_cancel = all(
            mon.count.get(("exec_start", cid), 0) == 0
            or (kind_of[cid] == "quick_cancel" and ("future_cancel", cid) in mon.first
                and any(e[1] == "exec_end" and e[2] == cid for e in mon.log))
            for cid in hung_calls
        )
        mech = F14_KEY if (exit_end is not None and (never_ran or in_cancel) and portal_gone
                           and hung_calls) else None  # fmt: skip
        viol.append(("call-left-hanging-after-portal-exit",
                     {"hung_calls": hung_calls, "stuck_threads": stuck, "never_ran": never_ran},
                     mech))  # fmt: skip

    for t in portal_thread_names:
        t.join(2)
        if t.is_alive():
            viol.append(("portal-thread-alive-after-exit", {"thread": t.name}))

    # ---------------------------------------------------------------- offline oracle
    stop_done = mon.first.get(("stop_done", None))
    stop_calling = mon.first.get(("stop_calling", None))
    exit_begin = mon.first.get(("exit_begin", None))
    for c in all_calls:
        cid, kind = c["cid"], c["kind"]
        rec = got.get(cid)
        if rec is None or cid in hung_calls:
            continue  # never issued (thread did not get that far) / judged above

        issued = mon.first[("call_issued", cid)]
        n_exec = mon.count.get(("exec_start", cid), 0)
        refused = "refused" in rec
        if refused:
            if n_exec:
                viol.append(("refused-call-was-executed", {"cid": cid}))

            first_close = min(x for x in (stop_calling, exit_begin, 10**9) if x is not None)
            if issued < first_close and mon.first.get(("call_done", cid), 0) < first_close:
                viol.append(("call-refused-while-portal-running", {"cid": cid, "msg": rec["refused"]}))

            continue

        closed = stop_done if stop_done is not None else exit_end
        if closed is not None and issued > closed and "exc" not in rec:
            viol.append(("call-accepted-after-stop", {"cid": cid, "kind": kind}))

        if "exc" in rec:
            # CancelledError from .result(): fine when the portal cancelled its tasks
            # (stop(cancel_remaining=True) / body raised) or when the callable itself
            # ended with a cancellation; nobody else may ever see one
            if "CancelledError" not in rec["exc"]:
                viol.append(("caller-got-unexpected-exception", {"cid": cid, "exc": rec["exc"]}))
            elif kind != "coro_native_cancel" and case["exit"] not in ("stop_cancel", "exception", "stop_then_cancel"):
                viol.append(("call-cancelled-although-nobody-cancelled-it",
                             {"cid": cid, "kind": kind, "exit": case["exit"]}))  # fmt: skip

            continue

        if kind == "coro_native_cancel":
            viol.append(("native-cancellation-of-callable-not-reported", {"cid": cid, "got": repr(rec)[:80]}))
            continue

        if n_exec != 1:
            viol.append(("not-executed-exactly-once", {"cid": cid, "executions": n_exec, "kind": kind}))

        if kind in ("sync", "coro") and rec.get("value") is not values[cid]:
            viol.append(("wrong-return-value-routed", {"cid": cid, "got": repr(rec.get("value"))[:60]}))

        if kind == "coro_raise" and rec.get("boom") is not booms[cid]:
            viol.append(("wrong-exception-routed", {"cid": cid, "got": repr(rec)[:80]}))

        if kind == "start_task" and rec.get("start_value") is not started_vals[cid]:
            viol.append(("start_task-wrong-started-value", {"cid": cid}))

        if kind == "start_task_fail" and rec.get("boom") is not booms[cid]:
            viol.append(("start_task-did-not-raise-task-exception", {"cid": cid, "got": repr(rec)[:80]}))

    for cid, f in futures.items():
        kind = next(c["kind"] for c in all_calls if c["cid"] == cid)
        if not f.done():
            viol.append(("future-unresolved-after-portal-exit", {"cid": cid, "kind": kind}))
            continue

        end = [e for e in mon.log if e[1] == "exec_end" and e[2] == cid]
        how = end[0][3] if end else None
        cancel_seq = mon.first.get(("future_cancel", cid))
        if f.cancelled():
            if how == "returned" and cancel_seq is None and case["exit"] not in ("exception", "stop_cancel", "stop_then_cancel"):
                viol.append(("future-cancelled-without-cause", {"cid": cid}))
        else:
            exc = f.exception()
            if exc is not None:
                viol.append(("future-has-unexpected-exception", {"cid": cid, "exc": repr(exc)}))
            elif f.result() is not values[cid]:
                viol.append(("wrong-return-value-routed", {"cid": cid, "via": "future"}))
            elif how != "returned":
                viol.append(("future-result-although-task-did-not-return", {"cid": cid, "how": how}))

        if kind in ("gated_cancel", "quick_cancel") and cancel_seq is not None:
            nd = [e for e in mon.log if e[1] == "cancel_not_delivered" and e[2] == cid]
            if nd and nd[0][3] is True:
                viol.append(("future-cancel-did-not-cancel-its-task", {"cid": cid}))
            elif nd:
                out["inconclusive"] = "cancelled task did not end within 5 s but the loop was not running either"
        elif how == "cancelled" and case["exit"] not in ("exception", "stop_cancel", "stop_then_cancel"):
            viol.append(("task-cancelled-although-its-future-was-not", {"cid": cid, "kind": kind}))

    if ("exit_stuck", None) in mon.first:
        viol.append(("portal-exit-by-exception-waits-for-the-tasks-instead-of-cancelling-them",
                     {"leave_with": case.get("leave_with", "Exception")}))  # fmt: skip

    nd2 = [e for e in mon.log if e[1] == "stop2_did_not_cancel"]
    if nd2 and nd2[0][4] is True:
        viol.append(("second-stop-with-cancel_remaining-did-not-cancel-running-tasks",
                     {"still_running": nd2[0][3]}))  # fmt: skip
    elif nd2:
        out["inconclusive"] = "tasks did not end within 5 s after the second stop but the loop was not ticking either"

    # join: every accepted task ended before the context exit returned
    if exit_end is not None:
        for c in all_calls:
            cid = c["cid"]
            s = mon.first.get(("exec_start", cid))
            e = mon.first.get(("exec_end", cid))
            if s is not None and s < exit_end and (e is None or e > exit_end):
                viol.append(("portal-exit-returned-before-task-ended", {"cid": cid, "kind": c["kind"]}))

    st = delay.stats()
    out["inject"] = st
    out["sig"] = sig_of([case["cfg"], case["exit"], [(e[1], e[2]) for e in mon.log]])
    out["log_tail"] = [list(map(str, e)) for e in mon.log[-50:]]
    out["log_all"] = mon.log
    return out


# ---------------------------------------------------------------------------------------
# `async with BlockingPortal()` used directly (not through start_blocking_portal)
# ---------------------------------------------------------------------------------------
def direct_cases():  # noqa: ANN201
    for cfg in ("asyncio", "uvloop"):
        for leave in ("normal", "cancel-as-last-statement", "cancel-one-step-before",
                      "body-raises"):  # fmt: skip
            for tasks in (0, 1, 2):
                yield {"t": "direct", "cfg": cfg, "leave": leave, "tasks": tasks, "exit": leave,
                       "threads": []}  # fmt: skip


def execute_direct(case: dict) -> dict:
    import anyio
    from anyio import CancelScope
    from anyio.from_thread import BlockingPortal

    viol: list = []
    out: dict = {"viol": viol, "windows": {"direct_portal:" + case["leave"]: 1}, "nontrivial": True,
                 "inconclusive": None, "inject": {}}  # fmt: skip
    mon = Mon()
    state: dict = {}
    ready, go = threading.Event(), threading.Event()
    gates = [threading.Event() for _ in range(case["tasks"])]

    async def gated(i: int) -> str:
        mon.ev("exec_start", i)
        try:
            while not gates[i].is_set():
                await anyio.sleep(0.0005)

            mon.ev("exec_end", i, "returned")
            return "done"
        except anyio.get_cancelled_exc_class():
            mon.ev("exec_end", i, "cancelled")
            raise

    async def main() -> None:
        with CancelScope() as sc:
            async with BlockingPortal() as portal:
                state["portal"] = portal
                ready.set()
                while not go.is_set():
                    await anyio.sleep(0.0005)

                if case["leave"] == "cancel-one-step-before":
                    sc.cancel()
                    mon.ev("exit_begin")
                    await anyio.sleep(0)  # delivered here: the block is left by the exception
                elif case["leave"] == "cancel-as-last-statement":
                    mon.ev("exit_begin")
                    sc.cancel()  # pending, not yet delivered, when __aexit__ starts
                elif case["leave"] == "body-raises":
                    mon.ev("exit_begin")
                    raise Leave
                else:
                    mon.ev("exit_begin")

        mon.ev("block_left")

    def loop_thread() -> None:
        try:
            opts = {"use_uvloop": True} if case["cfg"] == "uvloop" else {}
            anyio.run(main, backend_options=opts)
        except Leave:
            pass
        except BaseExceptionGroup as e:
            # (the portal's task group wraps what the body raised)
            if not (case["leave"] == "body-raises" and len(e.exceptions) == 1
                    and isinstance(e.exceptions[0], Leave)):  # fmt: skip
                state["run_exc"] = repr(e)
        except BaseException as e:  # noqa: BLE001
            state["run_exc"] = repr(e)

        mon.ev("exit_end")

    t = threading.Thread(target=loop_thread, daemon=True)
    t.start()
    if not ready.wait(10):
        out["inconclusive"] = "portal never came up"
        return _finish_direct(case, out, mon)

    portal = state["portal"]
    futures = [portal.start_task_soon(gated, i) for i in range(case["tasks"])]
    t0 = time.monotonic()
    while mon.count.get(("exec_start", None), 0) < 0 or any(
        ("exec_start", i) not in mon.first for i in range(case["tasks"])
    ):
        if time.monotonic() - t0 > 5:
            break

        time.sleep(0.0005)

    go.set()
    if case["leave"] == "normal":
        time.sleep(0.003)
        for g in gates:
            g.set()  # a normal exit waits for the tasks

    t.join(8)
    if t.is_alive():
        # a cancelled / failing exit must not need the gates
        for g in gates:
            g.set()

        t.join(5)
        viol.append(("portal-exit-hangs", {"leave": case["leave"]}))

    for g in gates:
        g.set()

    exit_end = mon.first.get(("exit_end", None))
    if state.get("run_exc"):
        viol.append(("exception-escaped-portal-context", {"exc": state["run_exc"]}))

    for i in range(case["tasks"]):
        s_ = mon.first.get(("exec_start", i))
        e_ = mon.first.get(("exec_end", i))
        if s_ is not None and exit_end is not None and (e_ is None or e_ > exit_end):
            viol.append(("portal-exit-returned-before-task-ended", {"cid": i, "kind": "gated"}))

        f = futures[i]
        if not f.done():
            viol.append(("future-unresolved-after-portal-exit", {"cid": i, "kind": "gated"}))

    # after the context has been left every new call is refused
    try:
        portal.call(gated, 0) if case["tasks"] else portal.call(anyio.sleep, 0)
        viol.append(("call-accepted-after-stop", {"cid": "late", "kind": "call"}))
    except RuntimeError:
        pass
    except BaseException as e:  # noqa: BLE001
        viol.append(("caller-got-unexpected-exception", {"cid": "late", "exc": repr(e)}))

    return _finish_direct(case, out, mon)


def _finish_direct(case: dict, out: dict, mon) -> dict:  # noqa: ANN001
    out["sig"] = sig_of(["direct", case["cfg"], case["leave"], case["tasks"],
                         [(e[1], e[2]) for e in mon.log]])  # fmt: skip
    out["log_tail"] = [list(map(str, e)) for e in mon.log[-50:]]
    return out


def all_cases(tier: str, seed: int):  # noqa: ANN201
    yield from direct_cases()
    # every caller is a worker thread of a second event loop (fixed generator seed)
    rf = random.Random(1515)
    for cfg in ("asyncio", "uvloop"):
        for _ in range(6):
            case = gen_case(rf, cfg)
            case["foreign_workers"] = list(range(len(case["threads"])))
            yield case

    rng = random.Random(seed * 4253 + 15)
    for _ in range(2500 if tier == "thorough" else 160):
        for cfg in ("asyncio", "uvloop"):
            yield gen_case(rng, cfg)


def judge(case: dict, col) -> None:  # noqa: ANN001
    res = execute_direct(case) if case.get("t") == "direct" else execute(case)
    col.case(res["sig"], res["nontrivial"], sample={"case": case, "events": res["log_tail"][:25]})
    for k, v in res["windows"].items():
        col.count("window:" + k, v)

    col.count("cfg:" + case["cfg"])
    col.count("exit:" + case["exit"])
    col.count("calls", sum(len(t) for t in case["threads"]))
    for k, v in res["inject"].items():
        col.count("inject:" + k, v)

    seen = set()
    for v in res["viol"]:
        clause, detail = v[0], v[1]
        mech = v[2] if len(v) > 2 else None
        if clause in seen:
            continue

        seen.add(clause)
        col.violation(clause, {"detail": detail, "events": res["log_tail"]}, case, mech)


def shards(tier: str, seed: int) -> list[dict]:
    return [{"tier": tier, "seed": seed, "shard": i, "of": NSHARDS} for i in range(NSHARDS)]


def run_shard(desc: dict, col) -> None:  # noqa: ANN001
    for i, case in enumerate(all_cases(desc["tier"], desc["seed"])):
        if i % desc["of"] == desc["shard"]:
            guarded(col, case, judge, case, col)
            if getattr(col, "unclassified_count", 0) >= 6:
                break


def replay(case: dict, col) -> None:  # noqa: ANN001
    for _ in range(5):
        guarded(col, case, judge, case, col)


def finish(col, tier: str) -> None:  # noqa: ANN001
    if not col.counters.get("window:caller_is_worker_thread_of_another_loop"):
        col.inconclusive_because("deciding window never reached: caller_is_worker_thread_of_another_loop")

    for k in ("window:left_with_pending_tasks:wait", "window:left_with_pending_tasks:cancel_remaining",
              "window:future_cancelled_while_task_running", "exit:stop_midway", "inject:injections"):  # fmt: skip
        if not col.counters.get(k):
            col.inconclusive_because(f"deciding window never reached: {k}")
