"""C11 -- Event and Condition: no early, spurious or lost wake-ups.

Event: generated waiters/setters; a wait may return only after set() was logged, nobody may
stay blocked once the event is set (Deadlock justified by exactly that), is_set() stays true.

Condition: a queue automaton is driven by the observed history.  The automaton state is the
FIFO of waiting actors; ``notify(n)`` pops <= n from the front and marks them notified; an
interrupted wait removes the actor if un-notified, else passes the mark to the next in the
queue.  The instant at which an interrupted wait does that is the same synchronous step in
which it starts re-acquiring the lock, so a pre-call observer on the public
``Condition.acquire`` lets the automaton take that transition at exactly the same point of
the history as the implementation (the active exception tells an interrupted wait from a
completed one).  At every such instant, and around every notify, the automaton's queue
length is compared with ``statistics().tasks_waiting``.  At quiescence: every notified,
never-cancelled waiter has returned holding the lock; no un-notified waiter returned.

Refusal clause: wait / notify / notify_all by a task that never held the lock, that held
and released it (also when release() handed the lock straight to a queued contender that
has not run yet), or while another task holds it -> RuntimeError, queue unchanged.
"""

from __future__ import annotations

import asyncio
import random
import sys

from ..collect import guarded, sig_of
from ..loops import BusyLoop, Deadlock, run
from ..sched import Actor, Harness, run_actors

PROPERTY = "C11"
LEVEL = "exploration"
RULE = (
    "case = (loop config, kind event|condition, actor programs: waiters (with pre-delay) "
    "and notifiers (notify(n), n in {0,1,2,3}, notify_all) / setters, cancel agents "
    "(victim waiter, cycle, placement, scope|native)); exhaustive sweep of the cancel cycle "
    "x placement x victim x cancel kind around one and two notifications for the 3-waiter "
    "base program, the complete refusal matrix (3 caller kinds x 3 methods) on every "
    "config, plus seeded random programs. Non-trivial = a waiter was cancelled while "
    "queued or after having been notified; distinct = distinct trace signature."
)
ASSUMPTIONS = [
    "asyncio FIFO ready queue (never reordered)",
    "a pre-call observer on the public Condition.acquire marks the instant at which an "
    "interrupted/completed wait() starts re-acquiring the lock",
    "native Task.cancel() of a waiter is supported usage",
]
SHARD_TIMEOUT = {"quick": 300, "thorough": 1500}
NSHARDS = 16

_obs: dict = {"acquire": None}
_patched = False


def _patch_condition() -> None:
    global _patched
    if _patched:
        return

    _patched = True
    from anyio import Condition

    orig = Condition.acquire

    def acquire(self):  # noqa: ANN001, ANN202
        cb = _obs["acquire"]
        if cb is not None:
            cb(self)

        return orig(self)

    acquire.__name__ = "acquire"
    Condition.acquire = acquire  # type: ignore[method-assign]


# ---------------------------------------------------------------------------------------
def gen_random(rng: random.Random, cfgs: list[str]) -> dict:
    kind = rng.choice(["cond", "cond", "cond", "event"])
    nw = rng.randint(1, 5)
    actors = []
    for _ in range(nw):
        ops = [["wait", rng.randint(0, 4)]]
        if kind == "cond" and rng.random() < 0.3:
            ops.append(["wait", rng.randint(0, 2)])

        actors.append({"role": "W", "mode": rng.choice(["scope", "native", "native-in-group"]), "ops": ops})

    for _ in range(rng.randint(1, 2)):
        ops = []
        for _ in range(rng.randint(1, 3)):
            if kind == "cond":
                ops.append(["notify", rng.randint(0, 6), rng.choice([0, 1, 1, 2, 3, "all"])])
            else:
                ops.append(["set", rng.randint(0, 8)])

        actors.append({"role": "N", "mode": "scope", "ops": ops})

    agents = []
    for _ in range(rng.choice([0, 1, 1, 2, 3])):
        agents.append({"at": rng.randint(0, 14), "place": rng.choice(["before", "after"]),
                       "victim": rng.randrange(nw)})  # fmt: skip

    # late rescue so that legitimately sleeping waiters do not end every case in a skip
    actors.append({"role": "N", "mode": "scope",
                   "ops": [["notify", 26, "all"] if kind == "cond" else ["set", 26]]})  # fmt: skip
    return {"cfg": rng.choice(cfgs), "kind": kind, "actors": actors, "agents": agents,
            "outside": rng.random() < 0.25}


def sweep_cases(cfgs: list[str]):  # noqa: ANN201
    for cfg in cfgs:
        for mode in ("scope", "native", "native-in-group"):
            for place in ("before", "after"):
                for victim in (0, 1, 2):
                    for at in range(0, 14):
                        for n1, n2 in ((1, 1), (2, 0), (1, "all"), ("all", 0), (1, 2)):
                            actors = [
                                {"role": "W", "mode": mode, "ops": [["wait", 0]]},
                                {"role": "W", "mode": mode, "ops": [["wait", 0]]},
                                {"role": "W", "mode": mode, "ops": [["wait", 1]]},
                                {"role": "N", "mode": "scope",
                                 "ops": [["notify", 4, n1], ["notify", 2, n2]]},
                            ]  # fmt: skip
                            yield {"cfg": cfg, "kind": "cond", "actors": actors,
                                   "agents": [{"at": at, "place": place, "victim": victim}]}  # fmt: skip

                for victim in (0, 1):
                    for at in range(0, 8):
                        actors = [
                            {"role": "W", "mode": mode, "ops": [["wait", 0]]},
                            {"role": "W", "mode": mode, "ops": [["wait", 2]]},
                            {"role": "N", "mode": "scope", "ops": [["set", 3]]},
                            {"role": "W", "mode": "scope", "ops": [["wait", 5]]},
                        ]
                        yield {"cfg": cfg, "kind": "event", "actors": actors,
                               "agents": [{"at": at, "place": place, "victim": victim}]}  # fmt: skip

        for caller in ("never-held", "held-and-released", "other-holds",
                       "other-holds+own-acquire_nowait-failed",
                       "released-to-queued-contender", "released-to-2-queued-contenders"):
            for method in ("wait", "notify", "notify_all"):
                for nq in (0, 1, 2):
                    yield {"cfg": cfg, "kind": "refusal", "caller": caller, "method": method,
                           "queued": nq}  # fmt: skip


# ---------------------------------------------------------------------------------------
def execute(case: dict) -> dict:
    if case["kind"] == "refusal":
        return execute_refusal(case)

    import anyio
    from anyio.lowlevel import checkpoint

    _patch_condition()
    viol: list = []
    out: dict = {"viol": viol, "windows": {}, "nontrivial": False}
    box: dict = {}
    is_cond = case["kind"] == "cond"

    def window(name: str) -> None:
        out["windows"][name] = out["windows"].get(name, 0) + 1

    # created while no event loop runs (adapters that build the backend object on first use)
    pre = (anyio.Condition() if is_cond else anyio.Event()) if case.get("outside") else None
    if pre is not None:
        window("created_outside_the_loop:" + type(pre).__name__)

    async def main() -> None:
        h = Harness()
        h.freeze_on_abort(viol)
        cond = (pre or anyio.Condition()) if is_cond else None
        event = None if is_cond else (pre or anyio.Event())
        state = {"set_seq": None}
        # automaton
        queue: list = []  # waiting actors, FIFO
        notified: set = set()  # (actor, wait#) marked by notify / pass-on
        in_wait: dict = {}  # actor -> wait#
        returned: set = set()
        box.update(h=h, cond=cond, event=event, state=state)
        h.abort_marks.append(
            lambda: box.update(in_wait=dict(in_wait), notified=set(notified),
                               queue=list(queue))  # fmt: skip
        )
        by_task: dict = {}

        def check_len(where: str) -> None:
            real = cond.statistics().tasks_waiting
            if real != len(queue):
                viol.append(("queue-length-differs-from-automaton",
                             {"where": where, "real": real, "model": [a.name for a in queue]}))  # fmt: skip

        def on_acquire(c) -> None:  # noqa: ANN001
            if c is not cond:
                return

            a = by_task.get(asyncio.current_task())
            if a is None or a not in in_wait:
                return

            key = (a, in_wait[a])
            exc = sys.exc_info()[1]
            if a.state.get("leaving") == key:
                return

            a.state["leaving"] = key
            h.ev(a.name, "wait-leaving", type(exc).__name__ if exc else "ok")
            if exc is None:
                # completed wait: must have been notified (judged at return too)
                if key not in notified:
                    viol.append(("wait-completing-without-notification", {"actor": a.name}))
                    if a in queue:
                        queue.remove(a)
            else:
                if key in notified:
                    window("notified_waiter_interrupted:" + a.mode)
                    # pass the notification on to the next waiter in line
                    if queue:
                        nxt = queue.pop(0)
                        notified.add((nxt, in_wait[nxt]))
                        h.ev(a.name, "pass-on", nxt.name)
                    else:
                        h.ev(a.name, "pass-on", None)
                elif a in queue:
                    queue.remove(a)

            check_len("wait-leaving")

        _obs["acquire"] = on_acquire if is_cond else None

        def holds_lock() -> bool:
            try:
                owner = cond.statistics().lock_statistics.owner
            except AssertionError:
                return False

            return owner is not None and owner.id == id(asyncio.current_task())

        async def waiter_cond(a: Actor, nth: int, pre: int) -> None:
            for _ in range(pre):
                await checkpoint()

            await cond.acquire()
            try:
                key = (a, nth)
                h.ev(a.name, "wait-call")
                in_wait[a] = nth
                # wait() registers in the same step unless the scope is already cancelled
                if not (a.mode == "scope" and a.cancel_issued):
                    queue.append(a)
                    registered = True
                else:
                    registered = False

                try:
                    await cond.wait()
                except asyncio.CancelledError:
                    h.ev(a.name, "wait-cancelled")
                    if not a.cancel_issued:
                        viol.append(("cancelled-without-cancel", {"actor": a.name}))

                    if not registered and a in queue:
                        queue.remove(a)

                    raise
                except BaseException as e:  # noqa: BLE001
                    viol.append(("exc!", {"op": "wait", "exc": repr(e)}))
                    if a in queue:
                        queue.remove(a)

                    return
                finally:
                    in_wait.pop(a, None)

                h.ev(a.name, "wait-ret")
                returned.add(key)
                if key not in notified:
                    viol.append(("wait-returned-without-notification", {"actor": a.name}))

                if not holds_lock():
                    viol.append(("wait-returned-without-holding-lock", {"actor": a.name}))
            finally:
                # (a wait() interrupted by a NATIVE cancellation while it re-acquires the
                # lock raises without holding it -- the statement only speaks about wait()
                # *returning*, so this is not judged; just do not release what we lack)
                if holds_lock():
                    cond.release()
                else:
                    window("wait_raised_without_lock:" + a.mode)
                    if a.mode == "scope":
                        # under AnyIO cancellation the re-acquisition is shielded, so
                        # control must never come back to the caller without the lock
                        viol.append(("wait-gave-control-back-without-lock", {"actor": a.name}))

        async def waiter_event(a: Actor, pre: int) -> None:
            for _ in range(pre):
                await checkpoint()

            h.ev(a.name, "wait-call")
            in_wait[a] = 0
            try:
                await event.wait()
            except asyncio.CancelledError:
                h.ev(a.name, "wait-cancelled")
                if not a.cancel_issued:
                    viol.append(("cancelled-without-cancel", {"actor": a.name}))

                raise
            finally:
                in_wait.pop(a, None)

            h.ev(a.name, "wait-ret")
            if state["set_seq"] is None:
                viol.append(("event-wait-returned-before-set", {"actor": a.name}))

            if not event.is_set():
                viol.append(("event-unset-after-set", {"actor": a.name}))

        async def body(a: Actor) -> None:
            by_task[asyncio.current_task()] = a
            sp = case["actors"][a.name]
            nth = 0
            for op in sp["ops"]:
                if op[0] == "wait":
                    if is_cond:
                        await waiter_cond(a, nth, op[1])
                    else:
                        await waiter_event(a, op[1])

                    nth += 1
                elif op[0] == "set":
                    for _ in range(op[1]):
                        await checkpoint()

                    state["set_seq"] = h.ev(a.name, "set")
                    if in_wait:
                        window("set_with_waiters")

                    event.set()
                    if not event.is_set():
                        viol.append(("event-unset-after-set", {}))
                elif op[0] == "notify":
                    for _ in range(op[1]):
                        await checkpoint()

                    async with cond:
                        n = op[2]
                        check_len("before-notify")
                        h.ev(a.name, "notify", n)
                        k = len(queue) if n == "all" else min(n, len(queue))
                        woken = [queue.pop(0) for _ in range(k)]
                        for w in woken:
                            notified.add((w, in_wait[w]))
                            if w.cancel_issued:
                                window("notify_selects_cancelled_waiter:" + w.mode)

                        try:
                            if n == "all":
                                cond.notify_all()
                            else:
                                cond.notify(n)
                        except BaseException as e:  # noqa: BLE001
                            viol.append(("exc!", {"op": "notify", "exc": repr(e)}))

                        check_len("after-notify")

        actors = [Actor(h, i, sp["mode"]) for i, sp in enumerate(case["actors"])]
        for ag in case["agents"]:
            victim = actors[ag["victim"]]

            def fire(victim: Actor = victim) -> None:
                if victim.done or victim.cancel_issued or victim.task is None:
                    return

                if victim in in_wait:
                    out["nontrivial"] = True
                    if (victim, in_wait[victim]) in notified:
                        window("cancel_after_notified:" + victim.mode)
                    else:
                        window("cancel_while_queued:" + victim.mode)

                victim.cancel()

            h.add_agent(ag["at"], ag["place"], fire, f"cancel->{ag['victim']}")

        await run_actors(h, [(a, body) for a in actors])
        for _ in range(3):
            await checkpoint()

        if is_cond:
            check_len("end")
            if cond.locked():
                viol.append(("condition-lock-left-held", {}))

    info: dict = {"stuck_ticks": 600}
    try:
        run(main, config=case["cfg"], info=info)
    except Deadlock:
        h = box["h"]
        h.apply_freeze()
        in_wait, notified = box["in_wait"], box["notified"]
        if is_cond:
            lost = [a.name for a, nth in in_wait.items()
                    if (a, nth) in notified and not a.cancel_issued]  # fmt: skip
            if lost:
                viol.append(("lost-wakeup:notified-waiter-still-asleep", {"waiters": lost}))
            else:
                out["skipped_deadlock"] = True
        else:
            if box["state"]["set_seq"] is not None and any(
                not a.cancel_issued for a in in_wait
            ):
                viol.append(("event-waiter-blocked-after-set",
                             {"waiters": [a.name for a in in_wait]}))  # fmt: skip
            else:
                out["skipped_deadlock"] = True
    except BusyLoop:
        box["h"].apply_freeze()
        viol.append(("busy-loop", {}))
    finally:
        _obs["acquire"] = None

    if info.get("callback_errors"):
        viol.append(("exception-in-loop-callback", info["callback_errors"][:3]))

    h = box.get("h")
    out["sig"] = sig_of([case["cfg"], case["kind"], h.signature() if h else None])
    out["log_tail"] = [list(map(str, e)) for e in (h.log[-40:] if h else [])]
    return out


def execute_refusal(case: dict) -> dict:
    import anyio
    from anyio.lowlevel import checkpoint

    viol: list = []
    out: dict = {"viol": viol, "windows": {"refusal:" + case["caller"] + ":" + case["method"]: 1},
                 "nontrivial": True}  # fmt: skip
    log: list = []

    async def main() -> None:
        cond = anyio.Condition()
        woken: list = []

        async def waiter(i: int) -> None:
            async with cond:
                await cond.wait()
                woken.append(i)

        holder_says: list = []

        async def holder(ev_in: anyio.Event, ev_out: anyio.Event) -> None:
            async with cond:
                ev_in.set()
                await ev_out.wait()
                # the task that really holds the lock is never refused
                try:
                    cond.notify(0)
                except RuntimeError as e:
                    holder_says.append(repr(e))

        async with anyio.create_task_group() as tg:
            for i in range(case["queued"]):
                tg.start_soon(waiter, i)

            for _ in range(4):
                await checkpoint()

            release_holder = anyio.Event()
            if case["caller"] == "held-and-released":
                await cond.acquire()
                cond.release()
            elif case["caller"].startswith("other-holds"):
                got = anyio.Event()
                tg.start_soon(holder, got, release_holder)
                await got.wait()
                if "acquire_nowait-failed" in case["caller"]:
                    try:
                        cond.acquire_nowait()
                        viol.append(("acquire_nowait-succeeded-on-a-held-condition", {}))
                    except anyio.WouldBlock:
                        pass
            elif case["caller"].startswith("released-to-"):
                # the lock is handed straight to a task queued on it: from release() on the
                # caller no longer holds it, although the new holder has not run yet
                await cond.acquire()
                for _ in range(2 if "2-queued" in case["caller"] else 1):
                    tg.start_soon(holder, anyio.Event(), release_holder)

                for _ in range(3):
                    await checkpoint()

                cond.release()

            before = cond.statistics().tasks_waiting
            log.append(("before", before))
            try:
                if case["method"] == "wait":
                    with anyio.move_on_after(5):
                        await cond.wait()
                elif case["method"] == "notify":
                    cond.notify()
                else:
                    cond.notify_all()
            except RuntimeError:
                log.append(("refused",))
            except BaseException as e:  # noqa: BLE001
                viol.append(("exc!", {"op": case["method"], "exc": repr(e)}))
            else:
                viol.append(("not-refused", {"caller": case["caller"], "method": case["method"]}))

            after = cond.statistics().tasks_waiting
            log.append(("after", after))
            if after != before:
                viol.append(("refused-call-changed-queue", {"before": before, "after": after}))

            for _ in range(4):
                await checkpoint()

            if woken:
                viol.append(("refused-call-woke-a-waiter", {"woken": woken}))

            release_holder.set()
            for _ in range(3):
                await checkpoint()

            # everybody still queued must be reachable by a real notify_all
            async with cond:
                cond.notify_all()

            for _ in range(6):
                await checkpoint()

            if sorted(woken) != list(range(case["queued"])):
                viol.append(("waiter-lost-after-refused-call", {"woken": woken}))

            if holder_says:
                viol.append(("holder-of-the-lock-was-refused", {"exc": holder_says[0]}))

            tg.cancel_scope.cancel()

    try:
        run(main, config=case["cfg"])
    except Deadlock:
        viol.append(("deadlock-in-refusal-case", {}))
    except BusyLoop:
        viol.append(("busy-loop", {}))

    out["sig"] = sig_of([case, log])
    out["log_tail"] = [list(map(str, e)) for e in log]
    return out


def all_cases(tier: str, seed: int):  # noqa: ANN201
    cfgs = ["stock", "eager"]
    rcfgs = ["stock", "eager"] * 3 + ["uvloop"]  # a share of the random cases on uvloop
    yield from sweep_cases(cfgs)
    rng = random.Random(seed * 4099 + 11)
    for _ in range(60000 if tier == "thorough" else 6000):
        yield gen_random(rng, rcfgs)


def judge(case: dict, col) -> None:  # noqa: ANN001
    res = execute(case)
    col.case(res["sig"], res["nontrivial"], sample={"case": case, "trace": res["log_tail"]})
    for k, v in res["windows"].items():
        col.count("window:" + k, v)

    if res.get("skipped_deadlock"):
        col.count("skipped_legit_deadlock")

    col.count("kind:" + case["kind"])
    seen = set()
    for clause, detail in res["viol"]:
        if clause in seen:
            continue

        seen.add(clause)
        col.violation(clause, {"detail": detail, "trace": res["log_tail"]}, case)


def shards(tier: str, seed: int) -> list[dict]:
    return [{"tier": tier, "seed": seed, "shard": i, "of": NSHARDS} for i in range(NSHARDS)]


def run_shard(desc: dict, col) -> None:  # noqa: ANN001
    for i, case in enumerate(all_cases(desc["tier"], desc["seed"])):
        if i % desc["of"] == desc["shard"]:
            guarded(col, case, judge, case, col)


def replay(case: dict, col) -> None:  # noqa: ANN001
    guarded(col, case, judge, case, col)


def finish(col, tier: str) -> None:  # noqa: ANN001
    need = [
        "window:cancel_while_queued:scope",
        "window:cancel_while_queued:native",
        "window:cancel_after_notified:native",
        "window:notified_waiter_interrupted:native",
        "window:set_with_waiters",
        "kind:refusal",
    ]
    for k in need:
        if not col.counters.get(k):
            col.inconclusive_because(f"deciding window never reached: {k}")
