"""C09 -- Lock: mutual exclusion, FIFO hand-off, cancel-safe waiters.

Generated programs of 2-5 actors (acquire / acquire_nowait / async-with / release / misuse)
run against the real anyio.Lock on the virtual-time loop; an online holder-set monitor and
an offline FIFO check judge every execution.  Waiters are cancelled through AnyIO scopes
and natively (Task.cancel), by agents placed at every loop cycle around the hand-over,
ahead of and behind the tasks' own wake-ups.  A Deadlock of the virtual loop is a violation
only when a never-cancelled waiter is blocked on a lock that is free or owned by a task that
has ended.
"""

from __future__ import annotations

import asyncio
import random

from .. import contracts
from ..collect import guarded, sig_of
from ..loops import BusyLoop, Deadlock, run
from ..sched import Actor, Harness, run_actors

PROPERTY = "C09"
LEVEL = "exploration"
RULE = (
    "case = (loop config, fast_acquire, 2-5 actor programs of with/nowait/ctx/misuse ops "
    "with per-op delays, cancel agents (victim, cycle, placement before|after the tasks' "
    "wake-ups, scope|native cancel)); an exhaustive sweep of cancel cycle 0..13 x "
    "placement x victim x cancel kind x fast_acquire x config over 3-actor base programs "
    "(hold 0..3) plus seeded random programs. Non-trivial = a cancellation was issued to "
    "an actor while it was inside acquire(); distinct = distinct trace signature (order of "
    "actor/agent events)."
)
ASSUMPTIONS = [
    "asyncio FIFO ready queue (never reordered by the harness)",
    "native Task.cancel() of a waiter is a supported way to cancel it (as in the repo's "
    "own tests)",
    "Lock.statistics() is used as the observable owner / queue length",
]
SHARD_TIMEOUT = {"quick": 300, "thorough": 1500}
NSHARDS = 16


def gen_random(rng: random.Random, cfgs: list[str]) -> dict:
    n = rng.randint(2, 5)
    actors = []
    for _ in range(n):
        ops = []
        for _ in range(rng.randint(1, 3)):
            r = rng.random()
            if r < 0.72:
                kind = rng.choice(["acquire", "acquire", "ctx", "nowait"])
                ops.append(["with", rng.randint(0, 3), rng.randint(0, 3), kind,
                            rng.random() < 0.15])  # fmt: skip
            elif r < 0.86:
                ops.append(["bad_release", rng.randint(0, 3)])
            elif r < 0.9:
                ops.append(["selfcancel"])
            else:
                ops.append(["cp", rng.randint(1, 3)])

        actors.append({"mode": rng.choice(["scope", "native", "native-in-group"]), "ops": ops})

    agents = []
    for _ in range(rng.choice([0, 1, 1, 2, 3])):
        agents.append(
            {"at": rng.randint(0, 14), "place": rng.choice(["before", "after"]),
             "victim": rng.randrange(n)}  # fmt: skip
        )

    return {"cfg": rng.choice(cfgs), "fast": rng.random() < 0.4, "outside": rng.random() < 0.25,
            "actors": actors,
            "agents": agents}  # fmt: skip


def sweep_cases(cfgs: list[str]):  # noqa: ANN201
    for cfg in cfgs:
        for fast in (False, True):
            for hold in (0, 1, 2, 3):
                for mode in ("scope", "native", "native-in-group"):
                    for victim in (1, 2):
                        for place in ("before", "after"):
                            for at in range(0, 14):
                                actors = [
                                    {"mode": "scope", "ops": [["with", 0, hold, "acquire", False]]},
                                    {"mode": mode, "ops": [["with", 0, 1, "acquire", False]]},
                                    {"mode": mode, "ops": [["with", 1, 1, "acquire", False]]},
                                ]
                                yield {
                                    "cfg": cfg, "fast": fast, "actors": actors,
                                    "agents": [{"at": at, "place": place, "victim": victim}],
                                }  # fmt: skip


    # an uncontended acquire entered in a scope that is cancelled already (the cancel lands
    # before the actor's first step, or between two of its steps): it raises and leaves the
    # lock free for the actor that comes later
    for cfg in cfgs:
        for fast in (False, True):
            for kind in ("acquire", "ctx"):
                for d in (0, 1, 2):
                    for at in range(0, d + 2):
                        for place in ("before", "after"):
                            for outside in (False, True):
                                actors = [
                                    {"mode": "scope", "ops": [["with", d, 1, kind, False]]},
                                    {"mode": "scope", "ops": [["with", d + 4, 1, "acquire", False]]},
                                ]
                                yield {"cfg": cfg, "fast": fast, "outside": outside, "actors": actors,
                                       "agents": [{"at": at, "place": place, "victim": 0}]}  # fmt: skip

                    for outside in (False, True):
                        # ... cancelled by the actor itself right before the call
                        actors = [
                            {"mode": "scope", "ops": [["cp", d], ["selfcancel"], ["with", 0, 1, kind, False]]},
                            {"mode": "scope", "ops": [["with", d + 4, 1, "acquire", False]]},
                        ]
                        yield {"cfg": cfg, "fast": fast, "outside": outside, "actors": actors,
                               "agents": []}  # fmt: skip


def execute(case: dict) -> dict:
    """Run one case; returns {'viol': [...], 'sig':..., 'nontrivial':bool, counters}."""
    import anyio
    from anyio import WouldBlock
    from anyio.lowlevel import checkpoint

    contracts.install()
    contracts.drain()
    viol: list = []
    out: dict = {"viol": viol, "windows": {}, "nontrivial": False}
    box: dict = {}

    def window(name: str) -> None:
        out["windows"][name] = out["windows"].get(name, 0) + 1

    # created while no event loop runs: AnyIO hands out an adapter that builds the backend
    # lock on first use - it has to behave exactly the same
    pre = anyio.Lock(fast_acquire=case["fast"]) if case.get("outside") else None
    if pre is not None:
        window("lock_created_outside_the_loop:" + type(pre).__name__)

    async def main() -> None:
        h = Harness()
        h.freeze_on_abort(viol)
        lock = pre if pre is not None else anyio.Lock(fast_acquire=case["fast"])
        holders: set = set()
        inprog: dict = {}
        box.update(h=h, lock=lock)

        def snap() -> None:
            try:
                owner, owner_dead = lock.statistics().owner, False
            except AssertionError:
                owner, owner_dead = None, True

            box.update(holders=set(holders), inprog=dict(inprog), locked=lock.locked(),
                       owner=repr(owner), owner_dead=owner_dead)  # fmt: skip

        h.abort_marks.append(snap)

        def owner_id():  # noqa: ANN202
            try:
                o = lock.statistics().owner
            except AssertionError:
                return "dead-task"

            return o.id if o is not None else None

        def waiting() -> int:
            try:
                return lock.statistics().tasks_waiting
            except AssertionError:
                return -1

        async def do_acquire(a: Actor, kind: str) -> bool:
            me = id(asyncio.current_task())
            if kind == "nowait":
                live_waiters = [b for b in inprog if not b.cancel_issued]
                was_locked = lock.locked()
                h.ev(a.name, "nowait-call")
                try:
                    lock.acquire_nowait()
                except WouldBlock:
                    h.ev(a.name, "nowait-wouldblock")
                    if not was_locked and waiting() == 0:
                        viol.append(("nowait-wouldblock-on-free-lock", {"actor": a.name}))

                    return False
                except BaseException as e:  # noqa: BLE001
                    viol.append(("exc!", {"op": "acquire_nowait", "exc": repr(e)}))
                    return False

                h.ev(a.name, "nowait-ok")
                if live_waiters:
                    viol.append(("newcomer-overtook-waiter",
                                 {"actor": a.name, "waiters": [b.name for b in live_waiters]}))  # fmt: skip
            else:
                seq = h.ev(a.name, "acq-call")
                inprog[a] = seq
                try:
                    if kind == "ctx":
                        await lock.__aenter__()
                    else:
                        await lock.acquire()
                except asyncio.CancelledError:
                    del inprog[a]
                    h.ev(a.name, "acq-cancelled")
                    if not a.cancel_issued:
                        viol.append(("cancelled-without-cancel", {"actor": a.name}))

                    if owner_id() == me:
                        viol.append(("cancelled-acquirer-owns-lock", {"actor": a.name}))

                    raise
                except BaseException as e:  # noqa: BLE001
                    del inprog[a]
                    viol.append(("exc!", {"op": "acquire", "exc": repr(e)}))
                    return False

                del inprog[a]
                h.ev(a.name, "acq-ret")
                earlier = [b.name for b, s in inprog.items() if s < seq and not b.cancel_issued]
                if earlier:
                    viol.append(("fifo-overtaken", {"actor": a.name, "still_waiting": earlier}))

            if holders:
                viol.append(("mutual-exclusion", {"actor": a.name,
                                                  "holders": [b.name for b in holders]}))  # fmt: skip

            if owner_id() != me:
                viol.append(("acquired-but-not-owner", {"actor": a.name}))

            holders.add(a)
            return True

        def do_release(a: Actor) -> None:
            holders.discard(a)
            h.ev(a.name, "release")
            try:
                lock.release()
            except BaseException as e:  # noqa: BLE001
                viol.append(("exc!", {"op": "release", "exc": repr(e)}))

        async def body(a: Actor) -> None:
            spec = case["actors"][a.name]
            for op in spec["ops"]:
                if op[0] == "cp":
                    for _ in range(op[1]):
                        await checkpoint()
                elif op[0] == "bad_release":
                    for _ in range(op[1]):
                        await checkpoint()

                    before = (lock.locked(), owner_id(), waiting())
                    try:
                        lock.release()
                    except RuntimeError:
                        h.ev(a.name, "bad-release-refused")
                    except BaseException as e:  # noqa: BLE001
                        viol.append(("exc!", {"op": "bad_release", "exc": repr(e)}))
                    else:
                        viol.append(("release-by-non-owner-accepted", {"actor": a.name}))

                    if (lock.locked(), owner_id(), waiting()) != before:
                        viol.append(("refused-release-changed-state", {"actor": a.name}))
                elif op[0] == "selfcancel":
                    # the actor cancels its own scope and goes on without a checkpoint: the
                    # next operation is entered in an already cancelled scope
                    if a.mode == "scope":  # (a native self-cancel is a different story)
                        a.cancel()
                        window("acquire_entered_in_an_already_cancelled_scope")
                elif op[0] == "with":
                    _, pre, hold, kind, reacquire = op
                    for _ in range(pre):
                        await checkpoint()

                    got = await do_acquire(a, kind)
                    if not got:
                        continue

                    try:
                        if reacquire:
                            for fn in ("nowait", "acquire"):
                                try:
                                    if fn == "nowait":
                                        lock.acquire_nowait()
                                    else:
                                        await lock.acquire()
                                except RuntimeError:
                                    h.ev(a.name, "reacquire-refused")
                                except asyncio.CancelledError:
                                    raise
                                except BaseException as e:  # noqa: BLE001
                                    viol.append(("exc!", {"op": "reacquire", "exc": repr(e)}))
                                else:
                                    viol.append(("reacquire-by-owner-accepted",
                                                 {"actor": a.name, "via": fn}))  # fmt: skip

                        for _ in range(hold):
                            await checkpoint()
                            if a not in holders or len(holders) != 1:
                                viol.append(("mutual-exclusion", {"actor": a.name}))
                    finally:
                        do_release(a)

        actors = [Actor(h, i, spec["mode"]) for i, spec in enumerate(case["actors"])]
        for ag in case["agents"]:
            victim = actors[ag["victim"]]

            def fire(victim: Actor = victim) -> None:
                if victim.done or victim.cancel_issued or victim.task is None:
                    return

                if victim in inprog:
                    out["nontrivial"] = True
                    window("cancel_inside_acquire:" + victim.mode)
                    if owner_id() == id(victim.task):
                        window("cancel_after_ownership_transferred:" + victim.mode)
                elif victim in holders:
                    window("cancel_while_holding")

                victim.cancel()

            h.add_agent(ag["at"], ag["place"], fire, f"cancel->{ag['victim']}")

        await run_actors(h, [(a, body) for a in actors])
        for _ in range(3):
            await checkpoint()

        if lock.locked() or waiting() != 0 or holders:
            viol.append(("not-idle-at-end", {"locked": lock.locked(), "waiting": waiting()}))

    info: dict = {"stuck_ticks": 600}
    try:
        run(main, config=case["cfg"], info=info)
    except Deadlock:
        box["h"].apply_freeze()
        inprog = box["inprog"]
        live = [a.name for a in inprog if not a.cancel_issued]
        locked, owner_dead = box["locked"], box["owner_dead"]
        if live and (not locked or owner_dead):
            viol.append(("deadlock:live-waiter-on-free-lock",
                         {"waiters": live, "locked": locked, "owner_dead": owner_dead}))  # fmt: skip
        elif live:
            # somebody who is not ending holds the lock forever: never generated
            viol.append(("deadlock:holder-never-released",
                         {"waiters": live, "owner": box["owner"]}))  # fmt: skip
        else:
            out["skipped_deadlock"] = True
    except BusyLoop:
        box["h"].apply_freeze()
        viol.append(("busy-loop", {}))

    for name, detail in contracts.drain():
        viol.append(("contract:" + name, detail))

    if info.get("callback_errors"):
        viol.append(("exception-in-loop-callback", info["callback_errors"][:3]))

    h = box.get("h")
    out["sig"] = sig_of([case["cfg"], h.signature() if h else None])
    out["log_tail"] = [list(map(str, e)) for e in (h.log[-25:] if h else [])]
    return out


def all_cases(tier: str, seed: int):  # noqa: ANN201
    cfgs = ["stock", "eager"]
    rcfgs = ["stock", "eager"] * 3 + ["uvloop"]  # a share of the random cases on uvloop
    yield from sweep_cases(cfgs)
    rng = random.Random(seed * 9176 + 9)
    for _ in range(60000 if tier == "thorough" else 6000):
        yield gen_random(rng, rcfgs)


def judge(case: dict, col) -> None:  # noqa: ANN001
    res = execute(case)
    col.case(res["sig"], res["nontrivial"], sample={"case": case, "trace": res["log_tail"]})
    for k, v in res["windows"].items():
        col.count("window:" + k, v)

    if res.get("skipped_deadlock"):
        col.count("skipped_unjustified_deadlock")

    col.count("cfg:" + case["cfg"])
    seen = set()
    for clause, detail in res["viol"]:
        if clause in seen:
            continue

        seen.add(clause)
        col.violation(clause, {"detail": detail, "trace": res["log_tail"]}, case)


def shards(tier: str, seed: int) -> list[dict]:
    return [{"tier": tier, "seed": seed, "shard": i, "of": NSHARDS} for i in range(NSHARDS)]


def run_shard(desc: dict, col) -> None:  # noqa: ANN001
    for i, case in enumerate(all_cases(desc["tier"], desc["seed"])):
        if i % desc["of"] == desc["shard"]:
            guarded(col, case, judge, case, col)

    for k, v in contracts.EVALS.items():
        col.count("contract_evals:" + k, v)


def replay(case: dict, col) -> None:  # noqa: ANN001
    guarded(col, case, judge, case, col)


def finish(col, tier: str) -> None:  # noqa: ANN001
    need = [
        "window:cancel_inside_acquire:scope",
        "window:cancel_inside_acquire:native",
        "window:cancel_after_ownership_transferred:native",
        "contract_evals:lock",
    ]
    for k in need:
        if not col.counters.get(k):
            col.inconclusive_because(f"critical window never reached: {k}")
